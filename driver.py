#!/usr/bin/env python3
"""Driver for the gostatsd deterministic-simulation checks (python3 stdlib only).

usage:  check --setup
        check <ID> quick|thorough
        check <ID> --replay <file>
        check <ID> --selftest          (determinism self-test only)

exit 0: property held on everything explored (KNOWN-FINDING lines allowed)
exit 1: at least one unlisted violation; each printed as  VIOLATION property=<id> replay=<path>
exit 2: infrastructure trouble (build failure, watchdog, non-reproducible failure, self-test failure)
"""
import json, os, re, shutil, subprocess, sys, time, hashlib

ROOT = os.path.dirname(os.path.abspath(__file__))
SIM = os.path.join(ROOT, "sim")
BUILD = os.path.join(ROOT, ".build")
REPLAYS = os.path.join(ROOT, "replays")
EVID = os.path.join(ROOT, "evidence")
if os.environ.get("VERIF_REPO"):
    EVID = os.path.join(ROOT, ".build", "evidence-scratch")  # sensitivity runs never touch the committed evidence
GO = "go1.26.8"

def goenv():
    env = dict(os.environ)
    env.update(GOFLAGS="-mod=mod", GOPROXY="off", GOSUMDB="off", GOTOOLCHAIN="local", CGO_ENABLED="0")
    return env

def simenv(extra):
    env = dict(os.environ)
    gd = env.get("GODEBUG", "")
    env["GODEBUG"] = (gd + "," if gd else "") + "randseednop=0"
    env.setdefault("GOMAXPROCS", "2")
    env["VERIF_KNOWN_FILE"] = os.path.join(ROOT, "known_findings.json")
    env.update({k: str(v) for k, v in extra.items()})
    return env

def log(*a):
    print(*a, flush=True)

def build(outdir):
    os.makedirs(outdir, exist_ok=True)
    binp = os.path.join(outdir, "sim.test")
    t0 = time.time()
    # go.sum must cover the repo's dependencies; it is a copy of /repo/go.sum plus the harness extras
    cmd = [GO, "test", "-c", "-tags", "verif", "-o", binp]
    alt = os.environ.get("VERIF_REPO")
    if alt:
        # sensitivity runs only: build against a scratch worktree of gostatsd instead of /repo
        # (registered commands never set this; they always build /repo's current working tree)
        mod = open(os.path.join(SIM, "go.mod")).read().replace("=> /repo", "=> " + os.path.abspath(alt))
        with open(os.path.join(outdir, "go.mod"), "w") as f:
            f.write(mod)
        shutil.copy(os.path.join(SIM, "go.sum"), os.path.join(outdir, "go.sum"))
        cmd += ["-modfile", os.path.join(outdir, "go.mod")]
        log("building against VERIF_REPO=%s" % alt)
    p = subprocess.run(cmd + ["."], cwd=SIM, env=goenv(),
                       stdout=subprocess.PIPE, stderr=subprocess.STDOUT, text=True)
    if p.returncode != 0 or not os.path.exists(binp):
        log("BUILD FAILED (exit 2):")
        log(p.stdout[-6000:])
        sys.exit(2)
    return binp, time.time() - t0

def run_bin(binp, extra, timeout, stderr_path=None, gomaxprocs=None):
    env = simenv(extra)
    if gomaxprocs:
        env["GOMAXPROCS"] = str(gomaxprocs)
    args = [binp, "-test.run", "^TestSim$", "-test.timeout", "%ds" % int(timeout + 120)]
    errf = open(stderr_path, "w") if stderr_path else subprocess.DEVNULL
    return subprocess.Popen(args, env=env, stdout=errf, stderr=subprocess.STDOUT, cwd=os.path.dirname(binp))

def load_json(p):
    try:
        with open(p) as f:
            return json.load(f)
    except Exception:
        return None

def known_findings():
    d = load_json(os.path.join(ROOT, "known_findings.json")) or {"findings": []}
    return d.get("findings", [])

def match_known(prop, cls):
    for k in known_findings():
        if k.get("property") == prop and k.get("status") == "known" and re.search(k["key"], cls):
            return k
    return None

META = load_json(os.path.join(ROOT, "meta.json")) or {}

def shrink_and_verify(binp, wdir, prop, seed, fail, crash, budget):
    """returns (replay_path, replay_dict, reproduced)"""
    cand = os.path.join(wdir, "cand-%d.json" % fail["run"])
    with open(cand, "w") as f:
        json.dump({"property": prop, "seed": seed, "run": fail["run"], "tape": fail["tape"], "crash": crash,
                   "violation": fail.get("violation"), "trace_hash": fail.get("trace_hash", "")}, f)
    out = os.path.join(wdir, "shrunk-%d.json" % fail["run"])
    extra = {"VERIF_MODE": "shrink", "VERIF_REPLAY": cand, "VERIF_OUT": out, "VERIF_BUDGET_S": budget,
             "VERIF_SCRATCH": wdir, "VERIF_CRASH": "1" if crash else ""}
    p = run_bin(binp, extra, budget + 60, os.path.join(wdir, "shrink.err"))
    try:
        p.wait(budget + 120)
    except subprocess.TimeoutExpired:
        p.kill()
    rf = load_json(out)
    if not rf or not rf.get("violation"):
        # shrinking failed to re-execute the failure: fall back to the unshrunk tape
        rf = load_json(cand)
        rf["shrink"] = "shrinker could not re-execute the failure; unshrunk tape kept"
    os.makedirs(REPLAYS, exist_ok=True)
    rpath = os.path.join(REPLAYS, "%s-%d-%d.json" % (prop, seed, fail["run"]))
    with open(rpath, "w") as f:
        json.dump(rf, f, indent=1)
    # verify in a fresh process (a few attempts: see DESIGN 8.1 on select fairness)
    reproduced = False
    unstable = str(rf.get("trace_hash", "")).startswith("unstable:")
    for attempt in range(16 if unstable else 4):
        vout = os.path.join(wdir, "verify.json")
        if os.path.exists(vout):
            os.remove(vout)
        p = run_bin(binp, {"VERIF_MODE": "verify", "VERIF_REPLAY": rpath, "VERIF_OUT": vout, "VERIF_SCRATCH": wdir,
                           "VERIF_CRASH": "1" if crash else ""}, 180, os.path.join(wdir, "verify.err"))
        try:
            p.wait(300)
        except subprocess.TimeoutExpired:
            p.kill()
        v = load_json(vout)
        if v and v.get("reproduced"):
            reproduced = True
            break
    return rpath, rf, reproduced

def record_crash_tape(binp, wdir, prop, seed, run):
    sink = os.path.join(wdir, "crash-sink-%d.txt" % run)
    out = os.path.join(wdir, "crash-out-%d.json" % run)
    errp = os.path.join(wdir, "crash-%d.err" % run)
    p = run_bin(binp, {"VERIF_MODE": "genrun", "VERIF_PROP": prop, "VERIF_SEED": seed, "VERIF_RUN": run,
                       "VERIF_OUT": out, "VERIF_TAPE_SINK": sink}, 120, errp)
    try:
        p.wait(180)
    except subprocess.TimeoutExpired:
        p.kill()
        return None, "watchdog"
    if p.returncode == 0 and os.path.exists(out):
        return None, "not-reproduced"
    tape = []
    if os.path.exists(sink):
        tape = [int(x) for x in open(sink).read().split()]
    return tape, open(errp).read()[-4000:]

def selftest(binp, wdir, prop, seed, nruns, procs):
    """same seeds in several fresh processes at different GOMAXPROCS; trace hashes must agree"""
    outs = []
    ps = []
    for i, gmp in enumerate(procs):
        out = os.path.join(wdir, "self-%d.json" % i)
        outs.append(out)
        ps.append(run_bin(binp, {"VERIF_MODE": "explore", "VERIF_PROP": prop, "VERIF_SEED": seed, "VERIF_FROM": 0,
                                 "VERIF_STRIDE": 1, "VERIF_MAXRUNS": nruns, "VERIF_DEADLINE_S": 600,
                                 "VERIF_OUT": out, "VERIF_KEEP_HASHES": 1}, 600,
                          os.path.join(wdir, "self-%d.err" % i), gomaxprocs=gmp))
    for p in ps:
        try:
            p.wait(900)
        except subprocess.TimeoutExpired:
            p.kill()
    hs = [load_json(o) for o in outs]
    if any(h is None for h in hs):
        return {"seeds": nruns, "repeats": len(procs), "gomaxprocs": procs, "mismatches": -1, "error": "a self-test process died"}
    mism = []
    ref = hs[0].get("trace_hashes", {})
    for h in hs[1:]:
        th = h.get("trace_hashes", {})
        for k in ref:
            if th.get(k) != ref[k] and k not in mism:
                mism.append(k)
    return {"seeds": len(ref), "repeats": len(procs), "gomaxprocs": procs, "mismatches": len(mism), "mismatch_runs": mism[:10]}

def main():
    if len(sys.argv) >= 2 and sys.argv[1] == "--setup":
        d = os.path.join(BUILD, "setup-%d" % os.getpid())
        binp, bt = build(d)
        p = run_bin(binp, {"VERIF_MODE": "list"}, 60)
        p.wait()
        shutil.rmtree(d, ignore_errors=True)
        log("setup ok: harness built in %.1fs" % bt)
        return 0
    if len(sys.argv) < 3:
        log(__doc__)
        return 2
    prop = sys.argv[1]
    wdir = os.path.join(BUILD, "%s-%d" % (prop, os.getpid()))
    try:
        return run_check(prop, sys.argv[2:], wdir)
    finally:
        if not os.environ.get("VERIF_KEEP_BUILD"):
            shutil.rmtree(wdir, ignore_errors=True)

def run_check(prop, args, wdir):
    t_start = time.time()
    binp, build_s = build(wdir)
    if args[0] == "--replay":
        rpath = os.path.abspath(args[1])
        rf = load_json(rpath)
        vout = os.path.join(wdir, "verify.json")
        crash = bool(rf.get("crash"))
        p = run_bin(binp, {"VERIF_MODE": "verify", "VERIF_REPLAY": rpath, "VERIF_OUT": vout, "VERIF_SCRATCH": wdir,
                           "VERIF_CRASH": "1" if crash else ""}, 300, os.path.join(wdir, "verify.err"))
        p.wait(600)
        v = load_json(vout)
        if v is None:
            log("replay process died:")
            log(open(os.path.join(wdir, "verify.err")).read()[-4000:])
            return 2
        log(json.dumps(v, indent=1)[:6000])
        if v.get("violation"):
            kf = match_known(prop, v["violation"]["class"])
            if kf:
                log("KNOWN-FINDING: property=%s %s" % (prop, kf["what"]))
                return 0
            log("VIOLATION property=%s replay=%s" % (prop, rpath))
            return 1
        log("replay: no violation")
        return 0

    tier = args[0]
    if tier == "--selftest":
        st = selftest(binp, wdir, prop, int(os.environ.get("VERIF_SEED", "1")), int(os.environ.get("VERIF_SELFTEST_RUNS", "40")), [1, 4, 16, 2, 8, 1])
        log(json.dumps(st))
        return 0 if st["mismatches"] == 0 else 2
    if tier not in ("quick", "thorough"):
        log("tier must be quick or thorough")
        return 2
    tier = os.environ.get("VERIF_TIER", tier) if os.environ.get("VERIF_TIER") in ("quick", "thorough") else tier
    seed = int(os.environ.get("VERIF_SEED", "20260926" if tier == "quick" else "7"))
    meta = META.get(prop, {})
    budget = float(os.environ.get("VERIF_BUDGET_S", meta.get("quick_s", 25) if tier == "quick" else meta.get("thorough_s", 600)))
    workers = int(os.environ.get("VERIF_WORKERS", "16"))
    shrink_budget = float(os.environ.get("VERIF_SHRINK_S", 45 if tier == "quick" else 240))

    # determinism self-test (small in quick, larger in thorough)
    st = selftest(binp, wdir, prop, seed, 12 if tier == "quick" else 40, [1, 4] if tier == "quick" else [1, 4, 16, 2])
    selftest_mismatch = st["mismatches"] > 0  # reported as exit 2 below unless a verified violation explains it
    selftest_died = st["mismatches"] < 0  # a crash: the exploration below will find and classify it

    infra = []
    crashes = []
    sums = []
    t_explore = time.time()
    active = {}
    def start_worker(w, first, gen, remaining):
        out = os.path.join(wdir, "w%d-%d.json" % (w, gen))
        prog = os.path.join(wdir, "w%d-%d.progress" % (w, gen))
        errp = os.path.join(wdir, "w%d-%d.err" % (w, gen))
        p = run_bin(binp, {"VERIF_MODE": "explore", "VERIF_PROP": prop, "VERIF_SEED": seed, "VERIF_FROM": first,
                           "VERIF_STRIDE": workers, "VERIF_DEADLINE_S": remaining, "VERIF_OUT": out,
                           "VERIF_PROGRESS": prog}, remaining + 120, errp)
        active[w] = (p, out, prog, errp, gen)
    for w in range(workers):
        start_worker(w, w, 0, budget)
    hard_deadline = time.time() + budget + 150
    while active:
        time.sleep(0.2)
        for w in list(active):
            p, out, prog, errp, gen = active[w]
            rc = p.poll()
            if rc is None:
                if time.time() > hard_deadline:
                    p.kill()
                    infra.append("worker %d exceeded the wall-clock watchdog at %s" % (w, load_json(prog)))
                    del active[w]
                continue
            del active[w]
            s = load_json(out)
            if s is not None and not s.get("partial"):
                sums.append(s)
                continue
            pr = load_json(prog)
            if pr is None:
                infra.append("worker %d died before its first run: %s" % (w, open(errp).read()[-2000:]))
                continue
            if s is not None:
                sums.append(s)  # coverage up to the last periodic snapshot
            crashes.append((pr["run"], errp))
            remaining = budget - (time.time() - t_explore)
            if remaining > 2 and gen < 6:
                start_worker(w, pr["run"] + workers, gen + 1, remaining)

    # merge coverage
    runs = sum(s["runs"] for s in sums)
    sched, nontriv, states = set(), set(), set()
    faults, probes = {}, {}
    simsec = 0.0
    choices = 0
    samples = []
    failures = []
    soft_known = {}
    for s in sums:
        for k, v in (s.get("known_hits") or {}).items():
            soft_known.setdefault(k, [v, 0])
            soft_known[k][1] += (s.get("known_runs") or {}).get(k, 0)
        sched.update(s.get("sched") or [])
        nontriv.update(s.get("nontrivial") or [])
        states.update(s.get("states") or [])
        for k, v in (s.get("faults") or {}).items():
            faults[k] = faults.get(k, 0) + v
        for k, v in (s.get("probes") or {}).items():
            probes[k] = probes.get(k, 0) + v
        simsec += s.get("sim_seconds", 0)
        choices += s.get("choices", 0)
        if len(samples) < 3:
            samples.extend((s.get("samples") or [])[:1])
        failures.extend(s.get("failures") or [])
    explore_wall = time.time() - t_explore

    violations = []
    known_hit = []
    seen_classes = set()
    skipped_crashes = []
    # oracle failures
    for fl in sorted(failures, key=lambda f: f["run"]):
        cls = fl["violation"]["class"]
        if cls in seen_classes:
            continue
        seen_classes.add(cls)
        # full shrink budget for the first two classes, a token one for the rest
        rpath, rf, ok = shrink_and_verify(binp, wdir, prop, seed, fl, False, shrink_budget if len(seen_classes) <= 2 else 3)
        fcls = (rf.get("violation") or {}).get("class", cls)
        if not ok:
            infra.append("failure %s (run %d) did not reproduce on replay: %s" % (cls, fl["run"], rpath))
            continue
        kf = match_known(prop, fcls)
        if kf:
            known_hit.append((kf, rpath))
        else:
            violations.append((fcls, rpath, rf))
    # crashes
    crash_done = 0
    for run, errp in sorted(crashes):
        if crash_done >= 3 and any(c.startswith(prop + "/crash") for c in seen_classes):
            # frequent crashes (every worker restart hits one): the first few are minimised and
            # verified, the rest only counted - the check must end in bounded time
            skipped_crashes.append(run)
            continue
        crash_done += 1
        tape, err = record_crash_tape(binp, wdir, prop, seed, run)
        if tape is None:
            infra.append("worker crash at run %d: %s; stderr tail: %s" % (run, err, open(errp).read()[-3000:]))
            continue
        fl = {"run": run, "tape": tape, "violation": None}
        rpath, rf, ok = shrink_and_verify(binp, wdir, prop, seed, fl, True, shrink_budget)
        fcls = (rf.get("violation") or {}).get("class", prop + "/crash:unknown")
        if fcls in seen_classes:
            continue
        seen_classes.add(fcls)
        if not ok:
            infra.append("crash at run %d did not reproduce on replay: %s" % (run, rpath))
            continue
        kf = match_known(prop, fcls)
        if kf:
            known_hit.append((kf, rpath))
        else:
            violations.append((fcls, rpath, rf))

    wall = time.time() - t_start
    zero_probes = sorted(k for k, v in probes.items() if v == 0)
    cov = {
        "evaluations": runs,
        "distinct_nontrivial": len(nontriv),
        "rule": meta.get("rule", "") + " One evaluation = one simulated run decided by (seed, run index). Distinct = distinct hash of the sequence of "
                "(choice-point kind, number enabled, chosen action) over scheduler/fault choice points with >= 2 enabled actions; "
                "non-trivial = at least one fault actually fired, or >= 2 operations overlapped, or the property-specific condition named above was reached in the run.",
        "samples": samples,
        "distinct_schedules": len(sched),
        "distinct_states": len(states),
        "choice_points": choices,
        "faults_fired": faults,
        "probes": probes,
        "probes_at_zero": zero_probes,
        "simulated_seconds_total": round(simsec, 3),
        "runs_per_hour": int(runs / explore_wall * 3600) if explore_wall > 0 else 0,
        "seeds_per_hour": int(runs / explore_wall * 3600) if explore_wall > 0 else 0,
        "workers": workers,
        "runs_with_uncontrolled_order": sum(s.get("unstable_runs", 0) for s in sums),
        "explore_wall_s": round(explore_wall, 2),
        "build_s": round(build_s, 2),
        "components": meta.get("components", {}),
        "determinism_selftest": st,
        "known_findings_hit": [k["key"] for k, _ in known_hit] + sorted(soft_known),
        "known_finding_runs": {k: v[1] for k, v in soft_known.items()},
        "violation_classes": [c for c, _, _ in violations],
        "infra": infra,
        "crashes_not_minimised": skipped_crashes,
    }
    ev = {
        "property_id": prop, "tier": tier, "seed": seed, "level": meta.get("level", "exploration"),
        "coverage": cov,
        "assumptions": meta.get("assumptions", []),
        "wall_s": round(wall, 2),
        "violations": len(violations),
    }
    os.makedirs(EVID, exist_ok=True)
    with open(os.path.join(EVID, "%s.json" % prop), "w") as f:
        json.dump(ev, f, indent=1)

    log("%s %s seed=%d: %d runs, %d distinct schedules (%d non-trivial), %d states, %.0f simulated s, faults=%s" %
        (prop, tier, seed, runs, len(sched), len(nontriv), len(states), simsec, json.dumps(faults, sort_keys=True)))
    if zero_probes:
        log("warning: probes never hit: %s" % ", ".join(zero_probes))
    for k, rpath in known_hit:
        log("KNOWN-FINDING: property=%s %s (replay %s)" % (prop, k["what"], rpath))
    for cls, (msg, n) in sorted(soft_known.items()):
        kf = match_known(prop, cls)
        log("KNOWN-FINDING: property=%s %s [class %s met in %d runs; first: %s]" % (prop, kf["what"] if kf else cls, cls, n, msg[:300]))
    for cls, rpath, rf in violations:
        log("violation class: %s" % cls)
        log("  " + ((rf.get("violation") or {}).get("msg", "")[:1500]).replace("\n", "\n  "))
        log("VIOLATION property=%s replay=%s" % (prop, rpath))
    if violations:
        return 1
    if selftest_mismatch:
        # A verdict never depends on the self-test (every violation is replay-verified in a fresh process
        # before it is reported); a mismatch means some run met order the simulator does not control and
        # was not marked as such. It is recorded in the evidence; it only fails the check (exit 2) in the
        # thorough tier and only when it is systematic rather than a one-off.
        log("warning: determinism self-test mismatch: %s" % json.dumps(st))
        if tier == "thorough" and st["mismatches"] > max(1, st["seeds"] // 50):
            log("determinism self-test failed (exit 2)")
            return 2
    if infra:
        log("infrastructure trouble (exit 2):")
        for i in infra:
            log("  " + i)
        return 2
    if runs == 0:
        log("no runs executed (exit 2)")
        return 2
    if selftest_died:
        log("determinism self-test process died but exploration found no crash (exit 2)")
        return 2
    return 0

if __name__ == "__main__":
    sys.exit(main())
