#!/usr/bin/env python3
"""Regenerates MANIFEST.json from meta.json (claimed checks) and the not-applicable table below."""
import json, os
ROOT = os.path.dirname(os.path.abspath(__file__))
meta = json.load(open(os.path.join(ROOT, "meta.json")))
props = [json.loads(l) for l in open(os.path.join(ROOT, "properties.jsonl"))]
NA = {
 "C02": "The line parser is a pure function of (line, namespace): no schedule, clock, I/O, fault or history enters the statement, and its observation point is the lexer's return value. Deciding it is grammar-differential/property-based testing, not deterministic simulation (DESIGN.md section 6).",
 "C10": "The tag stage is a stateless synchronous function of (filters, static tags, one metric map or event); nothing in the statement depends on time, interleaving, I/O or faults, so simulation has nothing to schedule or inject (DESIGN.md section 6). Its collision-merge clause is exercised under C07 only.",
}
PENDING = "Not claimed yet: the simulated world and oracle planned for it in DESIGN.md section 5 are not built/validated at this commit."
hooks = json.load(open(os.path.join(ROOT, "hooks.json")))
checks = []
na = []
for p in props:
    pid = p["id"]
    if pid in meta and meta[pid].get("claimed", True):
        m = meta[pid]
        checks.append({
            "property_id": pid,
            "quick_cmd": "./check %s quick" % pid,
            "thorough_cmd": "./check %s thorough" % pid,
            "evidence_file": "/verif/evidence/%s.json" % pid,
            "replay_cmd_template": "./check %s --replay {path}" % pid,
            "engine": "verifsim",
            "level_claimed": {"category": m["level"], "text": m["level_text"], "design_ref": m.get("design_ref", "DESIGN.md section 5 " + pid)},
            "level_note": m["level_note"],
            "technique": m.get("technique", "deterministic simulation with fault injection: seeded search over schedules and fault sequences of the real components in a synctest bubble, reference-model oracle, tape shrinking, replay files"),
        })
    else:
        na.append({"property_id": pid, "reason": NA.get(pid, PENDING)})
man = {
 "version": 1,
 "setup_cmd": "./check --setup",
 "hooks": hooks,
 "engines": [{"name": "verifsim", "path": "/verif/sim", "serves_properties": [c["property_id"] for c in checks],
              "kind_free_text": "Deterministic simulator: real gostatsd components inside a go1.26.8 testing/synctest bubble (fake clock, quiescence detection), harness-owned sockets/HTTP fabric/providers as gates, one SplitMix64-seeded choice tape deciding config, workload, faults and schedule, tape shrinking, replay files; driver /verif/driver.py fans out 16 worker processes."}],
 "checks": checks,
 "not_applicable": na,
 "notes": "Exit codes: 0 held (KNOWN-FINDING lines allowed), 1 VIOLATION (replay verified in a fresh process first), 2 infrastructure trouble. Env: VERIF_SEED, VERIF_TIER, VERIF_BUDGET_S (exploration seconds), VERIF_WORKERS. Known findings: /verif/known_findings.json.",
}
json.dump(man, open(os.path.join(ROOT, "MANIFEST.json"), "w"), indent=1)
print("claimed:", [c["property_id"] for c in checks])
print("not claimed:", [n["property_id"] for n in na])
