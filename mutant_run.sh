#!/bin/sh
# usage: mutant_run.sh <patch.diff> <property> [budget_s]   — applies the patch to /repo, runs the quick check, reverts.
set -u
P="$1"; ID="$2"; B="${3:-15}"
cd /repo || exit 2
if ! git diff --quiet; then echo "repo dirty"; exit 2; fi
git apply "$P" || { echo "patch does not apply"; exit 2; }
cd /verif && VERIF_BUDGET_S="$B" ./check "$ID" quick; rc=$?
cd /repo && git checkout -- . && git clean -fdq
echo "mutant_run exit=$rc"
exit $rc
