#!/bin/sh
# usage: mutant_wt.sh <patch.diff> <property> [budget_s]
# Applies the patch in a scratch worktree of /repo (never touches /repo's working tree), runs the
# quick check against it through VERIF_REPO, removes the worktree. Safe to run in parallel.
set -u
P="$(readlink -f "$1")"; ID="$2"; B="${3:-15}"
WT="/var/tmp/verif-wt-$$"
git -C /repo worktree add -q --detach "$WT" HEAD || exit 2
cd "$WT" && git apply "$P" || { echo "patch does not apply"; git -C /repo worktree remove --force "$WT"; exit 2; }
cd "${VERIF_HOME:-/verif}" && VERIF_REPO="$WT" VERIF_BUDGET_S="$B" VERIF_WORKERS="${VERIF_WORKERS:-16}" ./check "$ID" quick; rc=$?
git -C /repo worktree remove --force "$WT"
echo "mutant_wt exit=$rc"
exit $rc
