#!/usr/bin/env python3
# rewrites the table of seeded changes in DESIGN.md (between the seeded-table markers) from seeded/*/meta.json
import json,glob,re
esc=lambda x: x.replace('|','\\|').replace('\n',' ')
rows=["| change | what it needs to show | caught | by (violation class, first run under the default quick seed) |","|---|---|---|---|"]
n=c=0
for d in sorted(glob.glob('/verif/seeded/*/meta.json')):
    m=json.load(open(d)); n+=1; c+= m['caught_by_check']=='yes'
    rows.append("| %s | %s | %s | %s |"%(m['id'],esc(m['needs_to_manifest']),m['caught_by_check'],esc(m['check_result'])))
p='/verif/DESIGN.md'; s=open(p).read()
a=s.index("<!-- seeded-table-begin -->")+len("<!-- seeded-table-begin -->\n"); b=s.index("<!-- seeded-table-end -->")
s=s[:a]+"\n".join(rows)+"\n"+s[b:]
open(p,'w').write(s)
print(n,"seeded,",c,"caught,",sum(1 for d in glob.glob('/verif/seeded/*/meta.json') if json.load(open(d)).get('obsolete')),"obsolete")
