#!/bin/sh
# usage: verify_seeded.sh [budget_s] [ids...]  — re-runs every seeded change (or the given ids) through its property's quick check
# in a scratch worktree and prints one line per change: id, exit code (1 = caught), first violation class.
B="${1:-40}"; shift 2>/dev/null
IDS="$*"; [ -z "$IDS" ] && IDS=$(ls /verif/seeded)
for id in $IDS; do
  d=/verif/seeded/$id; prop=${id%%-*}
  p=$d/patch.diff; [ -f $d/patch_rebased.diff ] && p=$d/patch_rebased.diff
  out=$(/verif/mutant_wt.sh $p $prop $B 2>&1)
  rc=$(echo "$out" | sed -n 's/^mutant_wt exit=//p')
  cls=$(echo "$out" | sed -n 's/^violation class: //p' | head -3 | tr '\n' ' ')
  echo "$id rc=$rc $cls"
done
