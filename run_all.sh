#!/bin/sh
# usage: run_all.sh quick|thorough  — runs every claimed check and prints its exit code
tier="${1:-quick}"
for id in $(python3 -c "import json; print(' '.join(c['property_id'] for c in json.load(open('/verif/MANIFEST.json'))['checks']))"); do
  start=$(date +%s)
  /verif/check "$id" "$tier" > /verif/.build/run_all_$id.log 2>&1; rc=$?
  echo "$id exit=$rc $(( $(date +%s) - start ))s $(grep -c VIOLATION /verif/.build/run_all_$id.log) violations, $(grep -c KNOWN-FINDING /verif/.build/run_all_$id.log) known"
done
