#!/bin/sh
# usage: difftrace.sh PROP SEED RUN [N]  — runs one generated run N times at varying GOMAXPROCS and shows the first trace divergence
P=$1; S=$2; R=$3; N=${4:-8}
cd /verif/sim && GOFLAGS=-mod=mod GOPROXY=off GOSUMDB=off GOTOOLCHAIN=local go1.26.8 test -c -tags verif -o /verif/.build/dbg.test . || exit 2
cd /verif/.build
for g in $(seq 1 $N); do GODEBUG=randseednop=0 GOMAXPROCS=$((g*2)) VERIF_KNOWN_FILE=/verif/known_findings.json VERIF_MODE=genrun VERIF_PROP=$P VERIF_SEED=$S VERIF_RUN=$R VERIF_OUT=/verif/.build/g$g.json ./dbg.test -test.run '^TestSim$' >/dev/null 2>&1; done
python3 - $N <<'PY'
import json,sys
n=int(sys.argv[1])
rs=[json.load(open('/verif/.build/g%d.json'%g)) for g in range(1,n+1)]
print([r['trace_hash'][:10] for r in rs])
ts=[r['trace'] for r in rs]
a=ts[0]
for b in ts[1:]:
  for i,(x,y) in enumerate(zip(a,b)):
    if x!=y:
        print('first divergence at line',i); print('\n'.join(a[max(0,i-10):i+3])[:2500]); print('--- vs'); print('\n'.join(b[i:i+3])[:900]); sys.exit(0)
  if len(a)!=len(b):
    print('length differs', len(a), len(b)); print('\n'.join(a[-5:])[:800]); print('--- vs'); print('\n'.join(b[-5:])[:800]); sys.exit(0)
print('no divergence in kept trace (first %d lines)' % len(a))
PY
