#!/bin/sh
# Copies the harness (not its outputs) to /var/tmp/verif-snap so that evaluations of seeded changes
# can build from a stable copy while /verif/sim is being edited: VERIF_HOME=/var/tmp/verif-snap mutant_wt.sh ...
rm -rf /var/tmp/verif-snap && mkdir -p /var/tmp/verif-snap && rsync -a --exclude .git --exclude .build --exclude replays --exclude seeded --exclude evidence /verif/ /var/tmp/verif-snap/
