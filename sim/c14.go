package verifsim

// C14 — what a forwarder encodes is what the ingesting server decodes.
// A genuine two-party run: forwarder node (real HttpForwarderHandlerV2) -> simulated HTTP link
// (damage, loss, retries) -> ingestion node (real web router) -> recording handler.

import (
	"context"
	"fmt"
	"math"
	"net/http"
	"sort"
	"strings"
	"sync"
	"sync/atomic"
	"time"

	"github.com/sirupsen/logrus"
	"github.com/spf13/viper"
	"google.golang.org/protobuf/encoding/protowire"

	"github.com/atlassian/gostatsd"
	"github.com/atlassian/gostatsd/internal/flush"
	"github.com/atlassian/gostatsd/pkg/statsd"
	"github.com/atlassian/gostatsd/pkg/transport"
	"github.com/atlassian/gostatsd/pkg/web"
)

func init() { register("C14", func() Property { return c14{} }) }

type c14 struct{}

func (c14) ID() string { return "C14" }

// exactCanon renders a metric map with everything the wire format must carry, bit-exactly.
func exactCanon(mm *gostatsd.MetricMap) string {
	var lines []string
	f := func(v float64) string { return fmt.Sprintf("%016x", math.Float64bits(v)) }
	canonNaN := func(v float64) string {
		if math.IsNaN(v) {
			return "nan"
		}
		return f(v)
	}
	mm.Counters.Each(func(n, tk string, c gostatsd.Counter) {
		lines = append(lines, fmt.Sprintf("C|%s|%s|%q|%s|%d", n, tk, []string(c.Tags), c.Source, c.Value))
	})
	mm.Gauges.Each(func(n, tk string, g gostatsd.Gauge) {
		lines = append(lines, fmt.Sprintf("G|%s|%s|%q|%s|%s", n, tk, []string(g.Tags), g.Source, canonNaN(g.Value)))
	})
	mm.Timers.Each(func(n, tk string, t gostatsd.Timer) {
		vs := make([]string, len(t.Values))
		for i, v := range t.Values {
			vs[i] = canonNaN(v)
		}
		sort.Strings(vs)
		lines = append(lines, fmt.Sprintf("T|%s|%s|%q|%s|%s|%s", n, tk, []string(t.Tags), t.Source, strings.Join(vs, ","), f(t.SampledCount)))
	})
	mm.Sets.Each(func(n, tk string, s gostatsd.Set) {
		ms := make([]string, 0, len(s.Values))
		for m := range s.Values {
			ms = append(ms, m)
		}
		sort.Strings(ms)
		lines = append(lines, fmt.Sprintf("S|%s|%s|%q|%s|%q", n, tk, []string(s.Tags), s.Source, ms))
	})
	sort.Strings(lines)
	return strings.Join(lines, "\n")
}

// exactEvent renders an event; given is true for what the forwarder was handed, false for what the
// ingestion node dispatched. An event given without a date is dated by the ingestion node at receipt
// (the simulated clock starts in 2000, the dates the workload gives are later than 2023).
func exactEvent(e *gostatsd.Event, given bool) string {
	date := fmt.Sprint(e.DateHappened)
	if (given && e.DateHappened == 0) || (!given && e.DateHappened >= 946684800 && e.DateHappened < 946684800+50000000) {
		date = "time-of-receipt"
	}
	return fmt.Sprintf("E|title=%q|text=%q|date=%s|key=%q|srctype=%q|tags=%q|source=%q|pri=%d|alert=%d", e.Title, e.Text, date, e.AggregationKey, e.SourceTypeName, []string(e.Tags), e.Source, e.Priority, e.AlertType)
}

func (c14) Run(e *Env) {
	e.ProbeDecl("non-finite-value", "empty-tags", "empty-source", "same-set-name-two-tagsets", "sampled-timer", "event", "retry-after-5xx", "post-built-while-other-backs-off", "damaged-in-flight", "damaged-compressed-then-valid",
		"damage-decoded-anyway", "lost-response-duplicate", "huge-values", "redirected-to-other-node", "very-large-flush", "body-cut-short", "body-cut-at-field-boundary", "unusual-sampled-count", "all-default-event", "very-compressible-flush")
	compType := []string{"none", "zlib", "lz4"}[e.Draw(3)]
	level := e.Draw(10)
	v := viper.New()
	v.Set("http-transport.api-endpoint", "http://ingest")
	v.Set("http-transport.consolidator-slots", e.Range(1, 3))
	v.Set("http-transport.max-requests", 4)
	v.Set("http-transport.compress", compType != "none")
	if compType != "none" {
		v.Set("http-transport.compression-type", compType)
	} else if e.Bool() {
		// compression switched off, a compression type still configured
		v.Set("http-transport.compression-type", []string{"zlib", "lz4"}[e.Draw(2)])
	}
	v.Set("http-transport.compression-level", level)
	v.Set("http-transport.max-request-elapsed-time", 30*time.Second)
	v.Set("http-transport.flush-interval", time.Second)
	fab := NewFabric()
	fab.KeyFn = func(r *HTTPReq) string { return fmt.Sprintf("%s-%d", r.Path, len(r.Body)) } // bodies are not byte-stable (protobuf map order)
	pool := transport.NewTransportPool(logrus.StandardLogger(), v)
	cl, _ := pool.Get("default")
	cl.Client.Transport = fab
	fc := flush.NewFlushCoordinator()
	hfh, err := statsd.NewHttpForwarderHandlerV2FromViper(logrus.StandardLogger(), v, pool, fc)
	if err != nil {
		e.Failf("C14/harness", "forwarder: %v", err)
	}
	up := &RecHandler{Env: e}
	upSrv, err := web.NewHttpServer(logrus.StandardLogger(), up, "ingest", "ingest", false, false, true, false, nil, nil)
	if err != nil {
		e.Failf("C14/harness", "ingestion: %v", err)
	}
	fab.Handle("ingest", upSrv.Router)
	// run class "endpoint moved": the configured endpoint answers every request with a redirect to the
	// node that really ingests
	fab.Handle("ingest2", upSrv.Router)
	redirecting := e.Chance(1, 6)
	redirected := func(p *Parked) bool {
		r := p.Arg.(*HTTPReq)
		if !redirecting || r.Host != "ingest" {
			return false
		}
		st := []int{307, 308}[e.Draw(2)]
		fab.Gate.Release(p, HTTPOutcome{Kind: "status", Status: st, Header: http.Header{"Location": {"http://ingest2" + r.Path}}})
		e.Fault("redirect")
		e.Probe("redirected-to-other-node")
		e.Event("redirect %s -> %d ingest2", r.Path, st)
		e.Settle()
		return true
	}
	// run class "very large flush": one batch whose encoded form exceeds 16 MiB
	hugeLeft := 0
	if e.Chance(1, 3000) {
		hugeLeft = 1
	}
	ctx, cancel := context.WithCancel(context.Background())
	var wg sync.WaitGroup
	wg.Add(1)
	go func() { defer wg.Done(); hfh.Run(ctx) }()
	defer wg.Wait()
	defer fab.Gate.Open(nil)
	defer cancel()
	e.Settle()
	for _, p := range fab.Gate.Parked() { // the start-up nop post
		fab.Gate.Release(p, HTTPOutcome{Kind: "serve"})
	}
	e.Settle()
	nopMaps := up.NMaps()
	e.Event("cfg comp=%s level=%d", compType, level)

	expected := map[string]int{}  // canonical content -> number of posts constructed with it (always 1: contents are unique)
	delivered := map[string]int{} // canonical content -> undamaged successful deliveries
	allowedDup := map[string]int{}
	mapsSeen, evsSeen := nopMaps, 0
	item := 0
	specials := []float64{0, math.Copysign(0, -1), -1, 1e300, -1e300, math.MaxFloat64, 5e-324, math.Inf(1), math.Inf(-1), math.NaN(), 4.5e15}
	names := []string{"m.one", "m.two", "m/3 x"}
	// {"env:prod","s:10.6.0.1"} without a source and {"env:prod"} from source 10.6.0.1 share one tags key
	tagsets := [][]string{nil, {}, {"env:prod"}, {"a:1", "b:2"}, {"ünï:cödé", "k"}, {"b:2", "a:1"}, {"env:prod", "s:10.6.0.1"}}
	srcs := []string{"", "10.6.0.1", "host-Ω"}

	genBatch := func() *gostatsd.MetricMap {
		mm := gostatsd.NewMetricMap(false)
		setNames := map[string]map[string]bool{}
		var oddName, oddKey string
		var oddCount float64
		for i, n := 0, e.Range(1, 6); i < n; i++ {
			item++
			m := &gostatsd.Metric{Name: names[e.Draw(len(names))], Rate: 1, Source: gostatsd.Source(srcs[e.Draw(len(srcs))]), Timestamp: gostatsd.Nanotime(item)}
			m.Tags = append(gostatsd.Tags(nil), tagsets[e.Draw(len(tagsets))]...)
			if len(m.Tags) == 0 {
				e.Probe("empty-tags")
			}
			if m.Source == "" {
				e.Probe("empty-source")
			}
			val := float64(item) + 0.25
			if e.Chance(1, 3) {
				val = specials[e.Draw(len(specials))]
				if math.IsNaN(val) || math.IsInf(val, 0) {
					e.Probe("non-finite-value")
				}
				if math.Abs(val) > 1e200 {
					e.Probe("huge-values")
				}
			}
			switch e.Draw(4) {
			case 0:
				m.Type, m.Value = gostatsd.COUNTER, float64(item*7-20)
				if e.Chance(1, 6) {
					m.Value = 0 // a counter that adds up to nothing is a datapoint all the same
				}
			case 1:
				m.Type, m.Value = gostatsd.GAUGE, val
			case 2:
				m.Type, m.Value = gostatsd.TIMER, val
				m.Rate = []float64{1, 0.5, 0.1}[e.Draw(3)]
				if m.Rate != 1 {
					e.Probe("sampled-timer")
				}
				if e.Chance(1, 5) {
					// sampled counts a parser never produces, a merged or http-ingested map may hold
					oddName, oddKey = m.Name, gostatsd.FormatTagsKey(m.Source, m.Tags)
					oddCount = []float64{0, -1, 2.5, math.Inf(1), math.NaN()}[e.Draw(5)]
				}
			case 3:
				m.Type, m.StringValue = gostatsd.SET, fmt.Sprintf("mem-%d-é", item)
				k := strings.Join(m.Tags, ",") + "|" + string(m.Source)
				if setNames[m.Name] == nil {
					setNames[m.Name] = map[string]bool{}
				}
				setNames[m.Name][k] = true
				if len(setNames[m.Name]) > 1 {
					e.Probe("same-set-name-two-tagsets")
				}
			}
			mm.Receive(m)
			if t, ok := mm.Timers[oddName][oddKey]; ok && oddName != "" {
				t.SampledCount = oddCount
				mm.Timers[oddName][oddKey] = t
				e.Probe("unusual-sampled-count")
			}
			oddName = ""
		}
		if e.Chance(1, 300) {
			// one busy timer: tens of thousands of equal values, a payload that compresses several hundred to one
			e.Probe("very-compressible-flush")
			t := gostatsd.NewTimerValues(make([]float64, 60000))
			for i := range t.Values {
				t.Values[i] = 12
			}
			t.SampledCount = 60000
			t.Timestamp = gostatsd.Nanotime(item)
			mm.Timers["busy.timer"] = map[string]gostatsd.Timer{"": t}
		}
		if hugeLeft > 0 {
			hugeLeft--
			e.Probe("very-large-flush")
			for i := 0; i < 120000; i++ {
				mm.Receive(&gostatsd.Metric{Name: fmt.Sprintf("huge.series.%06d", i), Type: gostatsd.GAUGE, Value: float64(i), Rate: 1,
					Tags: gostatsd.Tags{"dc:us-east-1a-production", "env:production-environment"}, Timestamp: gostatsd.Nanotime(item)})
			}
		}
		// a unique marker so that no two posts ever carry the same content
		item++
		mm.Receive(&gostatsd.Metric{Name: "marker", Type: gostatsd.COUNTER, Value: float64(item), Rate: 1, Timestamp: gostatsd.Nanotime(item)})
		return mm
	}
	blankUsed := false
	genEvent := func() *gostatsd.Event {
		if !blankUsed && e.Chance(1, 8) {
			// every field at its default: the protobuf encoding of this event has no bytes at all
			blankUsed = true
			e.Probe("all-default-event")
			return &gostatsd.Event{}
		}
		item++
		ev := &gostatsd.Event{Title: fmt.Sprintf("event %d ✓", item), Text: []string{"", "text", "multi\nline", "tab\tand \"quotes\""}[e.Draw(4)], DateHappened: int64(e.Draw(3)) * 1700000000,
			AggregationKey: []string{"", "agg"}[e.Draw(2)], SourceTypeName: []string{"", "src"}[e.Draw(2)], Source: gostatsd.Source(srcs[e.Draw(len(srcs))]),
			Priority: []gostatsd.Priority{gostatsd.PriNormal, gostatsd.PriLow}[e.Draw(2)], AlertType: []gostatsd.AlertType{gostatsd.AlertInfo, gostatsd.AlertWarning, gostatsd.AlertError, gostatsd.AlertSuccess}[e.Draw(4)]}
		ev.Tags = append(gostatsd.Tags(nil), tagsets[e.Draw(len(tagsets))]...)
		e.Probe("event")
		return ev
	}
	// what did the ingestion node dispatch since the last look?
	absorb := func() []string {
		var out []string
		for ; mapsSeen < up.NMaps(); mapsSeen++ {
			out = append(out, exactCanon(up.MapAt(mapsSeen).Map))
		}
		for ; evsSeen < up.NEvents(); evsSeen++ {
			c := up.EventAt(evsSeen).Copy
			out = append(out, exactEvent(&c, false))
		}
		return out
	}
	var waiting atomic.Bool
	post := func() {
		if waiting.Load() || e.Chance(1, 3) { // while a manual flush is unresolved only events can be posted
			ev := genEvent()
			exp := *ev
			exp.Tags = append(gostatsd.Tags(nil), ev.Tags...)
			expected[exactEvent(&exp, true)]++
			e.Event("dispatch event %q", ev.Title)
			hfh.DispatchEvent(ctx, ev)
			return
		}
		mm := genBatch()
		expected[exactCanon(mm)]++
		obs, _ := Snapshot(mm)
		desc := CanonObs(obs)
		if len(desc) > 1500 {
			desc = fmt.Sprintf("%s ... (%d series)", desc[:1500], len(obs))
		}
		e.Event("dispatch+flush %s", desc)
		hfh.DispatchMetricMap(ctx, mm)
		wg.Add(1)
		go func() { defer wg.Done(); fc.Flush() }()
		if !waiting.Load() {
			waiting.Store(true)
			wg.Add(1)
			go func() { defer wg.Done(); fc.WaitForFlush(); waiting.Store(false) }()
		}
	}

	lastCompressedDamaged := false
	nSteps := e.Range(3, 24*e.Depth())
	for step := 0; step < nSteps; step++ {
		e.Settle()
		if d := absorb(); len(d) > 0 {
			e.Failf("C14/dispatch-without-request", "the ingestion node dispatched %d items although no request was served in this step", len(d))
		}
		reqP := fab.Gate.Parked()
		e.State("parked=%d expected=%d", len(reqP), len(expected))
		canPost := 0
		if len(reqP) < 3 {
			canPost = 3
		}
		switch e.Weighted("c14", []int{canPost, 5 * len(reqP), 1}) {
		case 0:
			if len(reqP) > 0 || step > 0 && fab.NReqs() > 0 && fab.Req(fab.NReqs()-1).Outcome == "status" {
				e.Probe("post-built-while-other-backs-off")
				e.Overlap = true
			}
			post()
		case 1:
			p := reqP[e.Choose("req", len(reqP))]
			if redirected(p) {
				continue
			}
			r := p.Arg.(*HTTPReq)
			compressed := r.Header.Get("Content-Encoding") == "deflate" || r.Header.Get("Content-Encoding") == "lz4"
			kind := e.Weighted("link", []int{6, 2, 1, 3, 1, 2})
			before := len(absorb())
			_ = before
			switch kind {
			case 0: // clean delivery
				okOut := HTTPOutcome{Kind: "serve"}
				if e.Chance(1, 6) {
					okOut.BrokenResponseBody = true // accepted, then the connection breaks inside the response body
					e.Fault("response-body-cut-after-2xx")
				}
				fab.Gate.Release(p, okOut)
				e.Settle()
				d := absorb()
				if r.Status < 200 || r.Status > 299 {
					e.Failf("C14/valid-request-refused", "an undamaged %s request (Content-Encoding %q, %d bytes) was answered %d", r.Path, r.Header.Get("Content-Encoding"), len(r.Body), r.Status)
				}
				if len(d) != 1 {
					e.Failf("C14/dispatch-count", "an undamaged %s request answered %d dispatched %d items", r.Path, r.Status, len(d))
				}
				if expected[d[0]] == 0 {
					var exp []string
					for k := range expected {
						if delivered[k] == 0 {
							exp = append(exp, k)
						}
					}
					sort.Strings(exp)
					e.Failf("C14/decoded-differs-from-encoded", "the ingestion node dispatched\n%s\nwhich is not what any forwarder post was given; undelivered posts were given:\n%s", d[0], strings.Join(exp, "\n---\n"))
				}
				delivered[d[0]]++
				if delivered[d[0]] > 1+allowedDup[d[0]] {
					e.Failf("C14/delivered-twice", "content delivered %d times although no response was lost:\n%s", delivered[d[0]], d[0])
				}
				if lastCompressedDamaged && compressed {
					e.Probe("damaged-compressed-then-valid")
				}
				lastCompressedDamaged = false
				e.Event("serve %s -> %d ok", r.Path, r.Status)
			case 1: // upstream refuses (retry follows)
				fab.Gate.Release(p, HTTPOutcome{Kind: "status", Status: []int{500, 503, 429}[e.Draw(3)]})
				e.Fault("http-5xx")
				e.Probe("retry-after-5xx")
				e.Event("refuse %s", r.Path)
			case 2: // processed, response lost
				fab.Gate.Release(p, HTTPOutcome{Kind: "lost-response"})
				e.Settle()
				d := absorb()
				if len(d) != 1 || expected[d[0]] == 0 {
					e.Failf("C14/decoded-differs-from-encoded", "lost-response delivery dispatched %v", d)
				}
				delivered[d[0]]++
				allowedDup[d[0]]++
				e.Fault("lost-response")
				e.Probe("lost-response-duplicate")
				e.Event("lost response %s", r.Path)
			case 5: // the connection is lost in the middle of the request body
				if r.Path == "/v2/raw" {
					e.Unstable("damage-applied-to-a-body-whose-bytes-follow-map-order") // where the cut falls depends on the byte layout
				}
				cut := 1
				if len(r.Body) > 2 {
					cut = 1 + e.Draw(len(r.Body)-1)
				}
				if enc := r.Header.Get("Content-Encoding"); (enc == "" || enc == "identity") && e.Bool() {
					// at a boundary between two top-level protobuf fields: what was received is a
					// well-formed message, only shorter
					var bounds []int
					for rest, off := r.Body, 0; len(rest) > 0; {
						_, _, n := protowire.ConsumeField(rest)
						if n <= 0 {
							break
						}
						off += n
						rest = rest[n:]
						if len(rest) > 0 {
							bounds = append(bounds, off)
						}
					}
					if len(bounds) > 0 {
						cut = bounds[e.Draw(len(bounds))]
						e.Probe("body-cut-at-field-boundary")
					}
				}
				if cut >= len(r.Body) {
					fab.Gate.Release(p, HTTPOutcome{Kind: "status", Status: 503})
					e.Fault("http-5xx")
					break
				}
				fab.Gate.Release(p, HTTPOutcome{Kind: "serve", CutBodyAt: cut})
				e.Settle()
				d := absorb()
				e.Fault("connection-lost-mid-body")
				e.Probe("body-cut-short")
				if r.Status < 400 || len(d) != 0 {
					e.Failf("C14/incomplete-body-accepted", "a %s request whose body ended after %d of the %d bytes announced by Content-Length was answered %d and dispatched %d items", r.Path, cut, len(r.Body), r.Status, len(d))
				}
				e.Event("body cut at %d/%d %s -> %d", cut, len(r.Body), r.Path, r.Status)
			case 3, 4: // damaged in flight
				mode := e.Draw(4)
				if kind == 4 {
					mode = 4
				}
				out := HTTPOutcome{Kind: "serve"}
				shortened := false // the body arrives as a strict prefix of what was sent
				if r.Path == "/v2/raw" && mode != 4 {
					// the bytes of a metrics body are not the same in every execution (protobuf map
					// fields are written in Go map order), so neither is what a bit flip at offset n hits
					e.Unstable("damage-applied-to-a-body-whose-bytes-follow-map-order")
				}
				switch mode {
				case 0:
					out.DamageBody = func(b []byte) []byte {
						if len(b) == 0 {
							return []byte{0xff}
						}
						c := append([]byte(nil), b...)
						for i, n := 0, 1+e.Draw(3); i < n; i++ {
							c[e.Draw(len(c))] ^= byte(1 + e.Draw(255))
						}
						return c
					}
				case 1:
					out.DamageBody = func(b []byte) []byte {
						n := e.Draw(len(b) + 1)
						if compressed && e.Chance(1, 3) {
							// at the structural boundaries of a frame: nothing, the magic, the frame header, the first block's size word
							n = []int{0, 4, 7, 11}[e.Draw(4)]
						}
						if n > len(b) {
							n = len(b)
						}
						shortened = n < len(b)
						return append([]byte(nil), b[:n]...)
					}
				case 2: // truncated right before the trailing checksum of a compressed stream
					out.DamageBody = func(b []byte) []byte {
						if len(b) < 10 {
							shortened = len(b) > 0
							return nil
						}
						shortened = true
						return append([]byte(nil), b[:len(b)-1-e.Draw(9)]...)
					}
				case 3:
					out.DamageBody = func(b []byte) []byte { return append(append([]byte(nil), b...), byte(e.Draw(256)), byte(e.Draw(256))) }
				case 4:
					enc := []string{"deflate", "lz4", "identity", "gzip", ""}[e.Draw(5)]
					out.DamageHeader = func(h http.Header) { h["Content-Encoding"] = []string{enc} }
				}
				fab.Gate.Release(p, out)
				e.Settle()
				d := absorb()
				e.Fault("body-damaged-in-flight")
				e.Probe("damaged-in-flight")
				if r.Status >= 400 {
					if len(d) != 0 {
						e.Failf("C14/refused-but-dispatched", "a damaged %s request was answered %d yet %d items were dispatched", r.Path, r.Status, len(d))
					}
				} else {
					if len(d) > 1 {
						e.Failf("C14/dispatch-count", "a damaged %s request answered %d dispatched %d items", r.Path, r.Status, len(d))
					}
					e.Probe("damage-decoded-anyway")
					if shortened && compressed {
						// A compressed stream that ends early cannot be decompressed. The only thing that may
						// be accepted is a stream of which just the trailer is missing: then all the data was there.
						if len(d) != 1 || expected[d[0]] == 0 {
							e.Failf("C14/truncated-stream-accepted", "a %s request whose %s body was cut short in flight was answered %d and dispatched %d items, none of them what the forwarder was given: the sender believes its data delivered", r.Path, r.Header.Get("Content-Encoding"), r.Status, len(d))
						}
						e.Probe("truncated-trailer-accepted-with-all-data")
						delivered[d[0]]++
						e.Event("truncated %s accepted with all data", r.Path)
						break
					}
					// the forwarder believes it is delivered; whatever was decoded is not judged (no checksum on identity bodies)
					for k, n := range expected {
						_ = n
						_ = k
					}
					// find which post this was, by elimination at the end: mark one expected item as excused
					allowedDup["__excused__"]++
				}
				lastCompressedDamaged = compressed && r.Status >= 400
				e.Event("damaged %s mode=%d -> %d dispatched=%d", r.Path, mode, r.Status, len(d))
			}
		case 2:
			d := []time.Duration{200 * time.Millisecond, time.Second, 3 * time.Second}[e.Draw(3)]
			e.Event("advance %v", d)
			time.Sleep(d)
		}
	}
	// settle: every request is delivered undamaged; back-off timers run out
	for i := 0; i < 200; i++ {
		e.Settle()
		ps := fab.Gate.Parked()
		if len(ps) == 0 {
			if i > 130 {
				break
			}
			time.Sleep(500 * time.Millisecond)
			continue
		}
		for _, p := range ps {
			if redirected(p) {
				continue
			}
			r := p.Arg.(*HTTPReq)
			fab.Gate.Release(p, HTTPOutcome{Kind: "serve"})
			e.Settle()
			d := absorb()
			if len(d) != 1 || r.Status < 200 || r.Status > 299 {
				e.Failf("C14/valid-request-refused", "settle: an undamaged %s request was answered %d and dispatched %d items", r.Path, r.Status, len(d))
			}
			if expected[d[0]] == 0 {
				e.Failf("C14/decoded-differs-from-encoded", "settle: the ingestion node dispatched\n%s\nwhich is not what any forwarder post was given", d[0])
			}
			delivered[d[0]]++
			if delivered[d[0]] > 1+allowedDup[d[0]] {
				e.Failf("C14/delivered-twice", "settle: content delivered %d times although no response was lost:\n%s", delivered[d[0]], d[0])
			}
		}
	}
	missing := 0
	var miss []string
	for k := range expected {
		if delivered[k] == 0 {
			missing++
			miss = append(miss, k)
		}
	}
	sort.Strings(miss)
	if missing > allowedDup["__excused__"] {
		e.Failf("C14/post-never-delivered", "%d posts were never decoded on the ingestion node although every request was eventually delivered undamaged (only %d were consumed by damaged-but-accepted deliveries); first:\n%s", missing, allowedDup["__excused__"], miss[0])
	}
	e.Note["posts"] = len(expected)
}
