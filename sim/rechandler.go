package verifsim

// rechandler.go: recording / gated gostatsd.PipelineHandler and recording stats.Statser used as
// observers downstream of a stage under test.

import (
	"context"
	"sync"
	"sync/atomic"
	"time"

	"github.com/atlassian/gostatsd"
	"github.com/atlassian/gostatsd/pkg/stats"
)

type RecDispatch struct {
	Map  *gostatsd.MetricMap // live pointer, kept so that it can be snapshotted again later
	Obs  map[SeriesKey]*Obs  // snapshot taken synchronously at dispatch
	Dups []string
	Seq  uint64
}

type RecEvent struct {
	Ev   *gostatsd.Event // live pointer
	Copy gostatsd.Event  // snapshot taken at dispatch
	Seq  uint64
}

type RecHandler struct {
	mu      sync.Mutex
	Maps    []*RecDispatch
	Events  []*RecEvent
	MapGate *Gate // if set, DispatchMetricMap parks here after recording
	EvGate  *Gate // if set, DispatchEvent parks here after recording
	Env     *Env
	evWg    sync.WaitGroup
}

func copyEvent(e *gostatsd.Event) gostatsd.Event {
	c := *e
	c.Tags = append(gostatsd.Tags(nil), e.Tags...)
	return c
}

func (h *RecHandler) DispatchMetricMap(ctx context.Context, mm *gostatsd.MetricMap) {
	obs, dups := Snapshot(mm)
	d := &RecDispatch{Map: mm, Obs: obs, Dups: dups}
	if h.Env != nil {
		d.Seq = h.Env.NextSeq()
	}
	h.mu.Lock()
	h.Maps = append(h.Maps, d)
	h.mu.Unlock()
	if h.MapGate != nil {
		h.MapGate.Arrive(CanonObs(obs), d)
	}
}

func (h *RecHandler) DispatchEvent(ctx context.Context, e *gostatsd.Event) {
	r := &RecEvent{Ev: e, Copy: copyEvent(e)}
	if h.Env != nil {
		r.Seq = h.Env.NextSeq()
	}
	h.mu.Lock()
	h.Events = append(h.Events, r)
	h.mu.Unlock()
	if h.EvGate != nil {
		h.EvGate.Arrive(e.Title+"|"+string(e.Source), r)
	}
}

func (h *RecHandler) EstimatedTags() int { return 0 }
func (h *RecHandler) WaitForEvents()     { h.evWg.Wait() }

func (h *RecHandler) NMaps() int   { h.mu.Lock(); defer h.mu.Unlock(); return len(h.Maps) }
func (h *RecHandler) NEvents() int { h.mu.Lock(); defer h.mu.Unlock(); return len(h.Events) }
func (h *RecHandler) MapAt(i int) *RecDispatch {
	h.mu.Lock()
	defer h.mu.Unlock()
	return h.Maps[i]
}
func (h *RecHandler) EventAt(i int) *RecEvent {
	h.mu.Lock()
	defer h.mu.Unlock()
	return h.Events[i]
}

// RecStatser records gauges/counters by name+tags and lets the driver trigger "flush" notifications.
type RecStatser struct {
	mu      sync.Mutex
	Gauges  map[string]float64
	Counts  map[string]float64
	NGauge  map[string]int
	targets []chan time.Duration
	tags    gostatsd.Tags
	parent  *RecStatser
}

func NewRecStatser() *RecStatser {
	return &RecStatser{Gauges: map[string]float64{}, Counts: map[string]float64{}, NGauge: map[string]int{}}
}

func (s *RecStatser) root() *RecStatser {
	if s.parent != nil {
		return s.parent.root()
	}
	return s
}

func statKey(name string, tags gostatsd.Tags) string {
	t := append(gostatsd.Tags(nil), tags...)
	return name + "{" + t.SortedString() + "}"
}

func (s *RecStatser) NotifyFlush(ctx context.Context, d time.Duration) {
	r := s.root()
	r.mu.Lock()
	ts := append([]chan time.Duration(nil), r.targets...)
	r.mu.Unlock()
	for _, t := range ts {
		select {
		case t <- d:
		default:
		}
	}
}

func (s *RecStatser) RegisterFlush() (<-chan time.Duration, func()) {
	r := s.root()
	ch := make(chan time.Duration)
	r.mu.Lock()
	r.targets = append(r.targets, ch)
	r.mu.Unlock()
	return ch, func() {
		r.mu.Lock()
		defer r.mu.Unlock()
		for i, t := range r.targets {
			if t == ch {
				r.targets = append(r.targets[:i], r.targets[i+1:]...)
				break
			}
		}
	}
}

func (s *RecStatser) Gauge(name string, value float64, tags gostatsd.Tags) {
	r := s.root()
	k := statKey(name, append(append(gostatsd.Tags(nil), s.tags...), tags...))
	r.mu.Lock()
	r.Gauges[k] = value
	r.NGauge[k]++
	r.mu.Unlock()
}
func (s *RecStatser) Count(name string, amount float64, tags gostatsd.Tags) {
	r := s.root()
	k := statKey(name, append(append(gostatsd.Tags(nil), s.tags...), tags...))
	r.mu.Lock()
	r.Counts[k] += amount
	r.mu.Unlock()
}
func (s *RecStatser) Increment(name string, tags gostatsd.Tags) { s.Count(name, 1, tags) }
func (s *RecStatser) Report(name string, value *uint64, tags gostatsd.Tags) {
	s.Gauge(name, float64(atomic.LoadUint64(value)), tags)
}
func (s *RecStatser) TimingMS(name string, ms float64, tags gostatsd.Tags)            {}
func (s *RecStatser) TimingDuration(name string, d time.Duration, tags gostatsd.Tags) {}
func (s *RecStatser) NewTimer(name string, tags gostatsd.Tags) *stats.Timer {
	return stats.NewNullStatser().NewTimer(name, tags)
}
func (s *RecStatser) WithTags(tags gostatsd.Tags) stats.Statser {
	return &RecStatser{parent: s, tags: append(append(gostatsd.Tags(nil), s.tags...), tags...)}
}
func (s *RecStatser) Event(ctx context.Context, e *gostatsd.Event) {}
func (s *RecStatser) WaitForEvents()                               {}

func (s *RecStatser) G(name string) (float64, bool) {
	r := s.root()
	r.mu.Lock()
	defer r.mu.Unlock()
	v, ok := r.Gauges[name]
	return v, ok
}
func (s *RecStatser) C(name string) float64 {
	r := s.root()
	r.mu.Lock()
	defer r.mu.Unlock()
	return r.Counts[name]
}
