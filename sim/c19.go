package verifsim

// C19 — every event is delivered once to every backend with its fields intact.
// World: receiver + parsers + CloudHandler (stub cache) + TagHandler (static tags) + BackendHandler
// (real, with its concurrent-events semaphore) + 0-3 recording backends with gated SendEvent; events
// arrive as datagram lines and through the real ingestion router's /v2/event.

import (
	"context"
	"fmt"
	"net"
	"sort"
	"strings"
	"sync"
	"sync/atomic"
	"time"
	"unicode/utf8"

	"github.com/sirupsen/logrus"
	"github.com/spf13/viper"
	"google.golang.org/protobuf/proto"

	"github.com/atlassian/gostatsd"
	"github.com/atlassian/gostatsd/internal/verifhook"
	"github.com/atlassian/gostatsd/pb"
	"github.com/atlassian/gostatsd/pkg/statsd"
	"github.com/atlassian/gostatsd/pkg/transport"
	"github.com/atlassian/gostatsd/pkg/web"
)

func init() { register("C19", func() Property { return c19{} }) }

type c19 struct{}

func (c19) ID() string { return "C19" }

// evBackend records SendEvent calls; the call parks at a gate and honours its context like a real
// network backend would.
type evBackend struct {
	name string
	gate *Gate
	http bool // forwarder mode: the "backend" is the upstream server, the gate is the HTTP link to it
	mu   sync.Mutex
	got  map[string][]gostatsd.Event // title -> deliveries that completed
	fail map[string]int              // title -> deliveries aborted by their context
}

func (b *evBackend) Name() string { return b.name }
func (b *evBackend) SendMetricsAsync(ctx context.Context, mm *gostatsd.MetricMap, cb gostatsd.SendCallback) {
	cb(nil)
}
func (b *evBackend) SendEvent(ctx context.Context, ev *gostatsd.Event) error {
	cp := copyEvent(ev)
	out, err := b.gate.ArriveCtx(ctx, ev.Title, nil)
	if err != nil {
		b.mu.Lock()
		b.fail[ev.Title]++
		b.mu.Unlock()
		return err
	}
	now := copyEvent(ev)
	if own, isErr := out.(error); isErr {
		// the backend was handed the event once and failed on its own (e.g. its request timed out):
		// that is its one delivery
		b.mu.Lock()
		if eventString(now) != eventString(cp) {
			b.fail["CHANGED:"+ev.Title]++
		}
		b.got[ev.Title] = append(b.got[ev.Title], now)
		b.mu.Unlock()
		return own
	}
	b.mu.Lock()
	if eventString(now) != eventString(cp) {
		b.fail["CHANGED:"+ev.Title]++
	}
	b.got[ev.Title] = append(b.got[ev.Title], now)
	b.mu.Unlock()
	return nil
}

func (b *evBackend) release(p *Parked) {
	if b.http {
		b.gate.Release(p, HTTPOutcome{Kind: "serve"})
	} else {
		b.gate.Release(p, nil)
	}
}

// releaseFailing lets a (non-http) backend fail the send on its own with a context-class error.
func (b *evBackend) releaseFailing(p *Parked, err error) { b.gate.Release(p, err) }

// c19Up is what the upstream server's ingestion router dispatches into (forwarder mode).
type c19Up struct{ b *evBackend }

func (u c19Up) DispatchMetricMap(ctx context.Context, mm *gostatsd.MetricMap) {}
func (u c19Up) EstimatedTags() int                                            { return 0 }
func (u c19Up) WaitForEvents()                                                {}
func (u c19Up) DispatchEvent(ctx context.Context, ev *gostatsd.Event) {
	u.b.mu.Lock()
	u.b.got[ev.Title] = append(u.b.got[ev.Title], copyEvent(ev))
	u.b.mu.Unlock()
}

type c19Expect struct {
	title      string
	accepted   bool // dispatch into the pipeline has returned
	released   bool // source known, or lookup answered
	wantString string
	viaHTTP    bool
}

func (c19) Run(e *Env) {
	e.ProbeDecl("event-via-datagram", "event-via-http", "parked-for-lookup", "lookup-success", "lookup-failure", "cache-hit", "two-events-one-parser-first-still-held", "backend-held", "semaphore-full", "wait-for-events-while-held",
		"no-backends", "escaped-newline", "absent-date", "all-fields", "release-parked-before-hand-over", "forwarder-mode", "forwarder-retry", "backend-send-fails", "text-not-utf8")
	nBackends := e.Draw(4)
	maxConc := e.Range(1, 3)
	// forwarder mode: the pipeline ends in the real HttpForwarderHandlerV2 and the event must arrive
	// exactly once at the upstream server (its real ingestion router), the link being the gate
	forwarder := e.Chance(1, 4)
	if forwarder {
		nBackends = 1
	}
	if nBackends == 0 {
		e.Probe("no-backends")
	}
	var backends []gostatsd.Backend
	var ebs []*evBackend
	var upFab *Fabric
	for i := 0; i < nBackends; i++ {
		b := &evBackend{name: fmt.Sprintf("b%d", i), gate: NewGate(fmt.Sprintf("ev-b%d", i)), got: map[string][]gostatsd.Event{}, fail: map[string]int{}}
		if forwarder {
			upFab = NewFabric()
			upFab.KeyFn = func(r *HTTPReq) string {
				var m pb.EventV2
				if r.Path == "/v2/event" && proto.Unmarshal(r.Body, &m) == nil {
					return m.Title
				}
				return "other"
			}
			b.name, b.gate, b.http = "upstream", upFab.Gate, true
		}
		ebs = append(ebs, b)
		backends = append(backends, b)
	}
	static := gostatsd.Tags{}
	if e.Bool() {
		static = gostatsd.Tags{"static:1", "dc:x"}
	}
	cache := &stubCache{table: map[gostatsd.Source]peekEntry{}, sink: make(chan gostatsd.Source), info: make(chan gostatsd.InstanceInfo)}
	bh := statsd.NewBackendHandler(backends, uint(maxConc), 1, 4, statsd.AggregatorFactoryFunc(func() statsd.Aggregator {
		return statsd.NewMetricAggregator(nil, time.Hour, time.Hour, time.Hour, time.Hour, gostatsd.TimerSubtypes{}, 0)
	}))
	var final gostatsd.PipelineHandler = bh
	var hfh *statsd.HttpForwarderHandlerV2
	if forwarder {
		e.Probe("forwarder-mode")
		v := viper.New()
		v.Set("http-transport.api-endpoint", "http://upstream")
		v.Set("http-transport.compress", false)
		v.Set("http-transport.max-requests", 4)
		pool := transport.NewTransportPool(logrus.StandardLogger(), v)
		cl, err := pool.Get("default")
		if err != nil {
			e.Failf("C19/harness", "%v", err)
		}
		cl.Client.Transport = upFab
		hfh, err = statsd.NewHttpForwarderHandlerV2FromViper(logrus.StandardLogger(), v, pool, nil)
		if err != nil {
			e.Failf("C19/harness", "%v", err)
		}
		upSrv, err := web.NewHttpServer(logrus.StandardLogger(), c19Up{ebs[0]}, "up", "up", false, false, true, false, nil, nil)
		if err != nil {
			e.Failf("C19/harness", "%v", err)
		}
		upFab.Handle("upstream", upSrv.Router)
		final = hfh
	}
	th := statsd.NewTagHandler(final, static, nil)
	ch := statsd.NewCloudHandler(cache, th)
	sock := NewSimSocket()
	dch := make(chan []*statsd.Datagram)
	nParsers := e.Range(1, 2)
	// ignore-host concerns metrics only: an event keeps its sender's address and all of its tags
	parser := statsd.NewDatagramParser(dch, "", e.Chance(1, 3), 0, ch, 0, false, logrus.StandardLogger())
	recv := statsd.NewDatagramReceiver(dch, func() (net.PacketConn, error) { return sock, nil }, 1, 1)
	srv, err := web.NewHttpServer(logrus.StandardLogger(), ch, "in", "in", false, false, true, false, nil, nil)
	if err != nil {
		e.Failf("C19/harness", "%v", err)
	}
	fab := NewFabric()
	fab.Handle("in", srv.Router)
	ctx, cancel := context.WithCancel(context.Background())
	var wg sync.WaitGroup
	start := func(f func(context.Context)) {
		wg.Add(1)
		go func() { defer wg.Done(); f(ctx) }()
	}
	if forwarder {
		start(hfh.Run)
		start(hfh.RunMetricsContext)
	} else {
		start(bh.Run)
	}
	start(ch.Run)
	for i := 0; i < nParsers; i++ {
		start(parser.Run)
	}
	start(recv.Run)
	defer wg.Wait()
	defer func() {
		for _, b := range ebs {
			b.gate.Open(nil)
		}
	}()
	defer cancel()
	e.Settle()
	if forwarder {
		// the forwarder starts with a synchronous empty post; serve it so that it is up
		for _, p := range upFab.Gate.Parked() {
			upFab.Gate.Release(p, HTTPOutcome{Kind: "serve"})
		}
		e.Settle()
	}
	// a third of the runs arm the H1 yield site in the cloud stage: a released event is parked just
	// before it is handed to the next stage, so that a WaitForEvents call can be made to overlap it
	yg := &yieldGate{gate: NewGate("yield"), anyObj: true, sites: map[string]bool{}}
	if e.Chance(1, 3) {
		yg.sites["cloudhandler.events.before-dispatch"] = true
		verifhook.SetYield(yg.fn)
		defer verifhook.SetYield(nil)
		defer yg.gate.Open(nil)
	}
	sharedSources := nParsers == 1 && e.Bool()
	e.Event("cfg backends=%d maxconc=%d static=%v parsers=%d sharedSources=%v forwarder=%v", nBackends, maxConc, static, nParsers, sharedSources, forwarder)

	instances := []*gostatsd.Instance{{ID: "i-one", Tags: gostatsd.Tags{"inst:1"}}, {ID: "i-notags"}}
	var exps []*c19Expect
	byTitle := map[string]*c19Expect{}
	parkedBySrc := map[string][]*c19Expect{}
	pendingTitle := map[string]*gostatsd.Event{} // accepted, not yet released: base event (before enrichment)
	outstanding := map[string]bool{}
	nEv := 0
	type c19Unpeeked struct {
		x    *c19Expect
		base *gostatsd.Event
	}
	unpeeked := map[string][]*c19Unpeeked{} // submitted, the cloud stage has not asked the cache about it yet
	nUnpeeked := 0
	peeksSeen := 0
	noMoreEvents := false
	retryPending := map[string]bool{} // forwarder mode: event title -> an attempt was refused, the retry has not arrived yet
	clearRetries := func() {
		for _, b := range ebs {
			if !b.http {
				continue
			}
			for _, p := range b.gate.Parked() {
				if r, ok := p.Arg.(*HTTPReq); ok {
					delete(retryPending, r.Canon)
				}
			}
		}
	}
	var httpBusy atomic.Int32
	var waitCalls []*struct {
		must    []string
		done    atomic.Bool
		checked bool
	}

	render := func(base gostatsd.Event, inst *gostatsd.Instance) string {
		ev := base
		tags := append([]string(nil), base.Tags...)
		// the tag stage adds every static tag not already present; the cloud stage appends instance tags first
		if inst != nil {
			tags = append(tags, inst.Tags...)
			ev.Source = inst.ID
		}
		seen := map[string]bool{}
		var uniq []string
		for _, t := range tags {
			if !seen[t] {
				seen[t] = true
				uniq = append(uniq, t)
			}
		}
		for _, t := range static {
			if !seen[t] {
				seen[t] = true
				uniq = append(uniq, t)
			}
		}
		sort.Strings(uniq)
		ev.Tags = uniq
		if forwarder {
			// proto3 strings are valid UTF-8: the one thing the upstream cannot receive byte for byte
			ev.Text = strings.ToValidUTF8(ev.Text, "\uFFFD")
			for i, t := range ev.Tags {
				ev.Tags[i] = strings.ToValidUTF8(t, "\uFFFD")
			}
			sort.Strings(ev.Tags)
		}
		return eventString(ev)
	}
	sortedTags := func(ev gostatsd.Event) string {
		t := append([]string(nil), ev.Tags...)
		sort.Strings(t)
		ev.Tags = t
		return eventString(ev)
	}
	release := func(x *c19Expect, base gostatsd.Event, inst *gostatsd.Instance) {
		x.released = true
		x.wantString = render(base, inst)
	}

	// the oracle follows what the cache actually answered when the stage asked (an event may sit
	// unparsed behind a blocked parser while the cache content changes)
	seePeeks := func() {
		cache.mu.Lock()
		log := append([]peekRecord(nil), cache.peekLog[peeksSeen:]...)
		peeksSeen = len(cache.peekLog)
		cache.mu.Unlock()
		for _, pr := range log {
			src := string(pr.src)
			q := unpeeked[src]
			if len(q) == 0 {
				e.Failf("C19/unexpected-peek", "the cloud stage asked the cache about %s although no event from it is pending", src)
			}
			u := q[0]
			unpeeked[src] = q[1:]
			nUnpeeked--
			e.Event("peek %s for %s -> hit=%v inst=%v", src, u.x.title, pr.ans.hit, pr.ans.inst != nil)
			if pr.ans.hit {
				e.Probe("cache-hit")
				release(u.x, *u.base, pr.ans.inst)
			} else {
				e.Probe("parked-for-lookup")
				parkedBySrc[src] = append(parkedBySrc[src], u.x)
				pendingTitle[u.x.title] = u.base
			}
		}
	}

	check := func(final bool) {
		seePeeks()
		held := yg.gate.Len()
		for _, b := range ebs {
			held += b.gate.Len()
			b.mu.Lock()
			for t, n := range b.fail {
				if n > 0 {
					b.mu.Unlock()
					if strings.HasPrefix(t, "CHANGED:") {
						e.Failf("C19/event-mutated-during-delivery", "backend %s: event %s changed while its delivery was in progress", b.name, t)
					}
					e.Failf("C19/delivery-aborted", "backend %s: delivery of accepted event %q was aborted by its context (%d times)", b.name, t, n)
				}
			}
			for t, evs := range b.got {
				x := byTitle[t]
				if x == nil {
					b.mu.Unlock()
					e.Failf("C19/unknown-event", "backend %s received event %q which nobody sent", b.name, t)
				}
				if len(evs) > 1 {
					b.mu.Unlock()
					e.Failf("C19/event-delivered-twice", "backend %s received event %q %d times", b.name, t, len(evs))
				}
				if !x.released {
					b.mu.Unlock()
					e.Failf("C19/delivered-before-lookup", "backend %s received event %q (%s) before the lookup for its sender completed; outstanding=%v parked=%v", b.name, t, eventString(evs[0]), outstanding, pendingTitle)
				}
				if g := sortedTags(evs[0]); g != x.wantString {
					b.mu.Unlock()
					e.Failf("C19/event-fields", "backend %s received %s\nexpected %s", b.name, g, x.wantString)
				}
			}
			b.mu.Unlock()
		}
		clearRetries()
		if final || (held == 0 && httpBusy.Load() == 0 && len(retryPending) == 0) {
			for _, x := range exps {
				if !x.accepted || !x.released {
					continue
				}
				for _, b := range ebs {
					b.mu.Lock()
					n := len(b.got[x.title])
					b.mu.Unlock()
					if n != 1 {
						e.Failf("C19/event-not-delivered", "event %q was accepted and its source is resolved, nothing is held, yet backend %s has it %d times", x.title, b.name, n)
					}
				}
			}
		}
		for _, wc := range waitCalls {
			if wc.done.Load() && !wc.checked {
				wc.checked = true
				for _, t := range wc.must {
					for _, b := range ebs {
						b.mu.Lock()
						n := len(b.got[t])
						b.mu.Unlock()
						if n == 0 {
							e.Failf("C19/wait-for-events-early", "WaitForEvents returned although event %q, accepted before the call, has not been handed to backend %s", t, b.name)
						}
					}
				}
			}
		}
	}

	acceptSink := func() {
		for {
			e.Settle()
			select {
			case s := <-cache.sink:
				outstanding[string(s)] = true
			default:
				return
			}
		}
	}

	type evSpec struct {
		base    gostatsd.Event
		line    string
		viaHTTP bool
		src     string
	}
	genEvent := func() evSpec {
		nEv++
		title := fmt.Sprintf("ev%d", nEv)
		text := []string{"plain", "", "two\nlines", "pipe|inside", "ends with a newline\n", "\nstarts with one", "a\n\nb\n", "not \xff utf-8 \xc3"}[e.Draw(8)]
		if strings.Contains(text, "\n") {
			e.Probe("escaped-newline")
		}
		if !utf8.ValidString(text) {
			e.Probe("text-not-utf8")
		}
		// Either a small pool of senders (several events per sender; then only datagrams through one
		// parser, so that the cache is asked in submission order) or one sender per event (the cache's
		// answer is attributed to the event by its address).
		src := fmt.Sprintf("10.2.%d.%d", 1+nEv/200, 1+nEv%200)
		if sharedSources {
			src = fmt.Sprintf("10.2.0.%d", 1+e.Draw(3))
		}
		ev := gostatsd.Event{Title: title, Text: text, Source: gostatsd.Source(src)}
		var attrs []string
		if e.Bool() {
			ev.DateHappened = 1700000000 + int64(nEv)
			attrs = append(attrs, fmt.Sprintf("d:%d", ev.DateHappened))
		} else {
			e.Probe("absent-date")
		}
		all := e.Chance(1, 3)
		if all || e.Bool() {
			ev.AggregationKey = "agg" + title
			attrs = append(attrs, "k:"+ev.AggregationKey)
		}
		if all || e.Bool() {
			ev.Priority = gostatsd.PriLow
			attrs = append(attrs, "p:low")
		}
		if all || e.Bool() {
			ev.SourceTypeName = "stype"
			attrs = append(attrs, "s:stype")
		}
		if all || e.Bool() {
			ev.AlertType = []gostatsd.AlertType{gostatsd.AlertWarning, gostatsd.AlertError, gostatsd.AlertSuccess}[e.Draw(3)]
			attrs = append(attrs, "t:"+ev.AlertType.String())
		}
		if all {
			e.Probe("all-fields")
			attrs = append(attrs, "h:ignored-host")
		}
		if nt := e.Draw(4); nt > 0 {
			for i := 0; i < nt; i++ {
				ev.Tags = append(ev.Tags, fmt.Sprintf("t%d:%s", i, title))
			}
			if e.Chance(1, 4) {
				ev.Tags = append(ev.Tags, "static:1")
			}
			if e.Chance(1, 4) {
				ev.Tags = append(ev.Tags, "host:web-7")
			}
			if !utf8.ValidString(text) && e.Bool() {
				ev.Tags = append(ev.Tags, "zone:\xfe\xfe")
			}
			attrs = append(attrs, "#"+strings.Join(ev.Tags, ","))
		}
		wireText := strings.ReplaceAll(text, "\n", "\\n")
		line := fmt.Sprintf("_e{%d,%d}:%s|%s", len(title), len(wireText), title, wireText)
		// attributes in arbitrary order
		for i := len(attrs) - 1; i > 0; i-- {
			j := e.Draw(i + 1)
			attrs[i], attrs[j] = attrs[j], attrs[i]
		}
		for _, a := range attrs {
			line += "|" + a
		}
		// (a protobuf request cannot carry a string that is not UTF-8)
		return evSpec{base: ev, line: line, viaHTTP: !sharedSources && e.Chance(1, 3) && utf8.ValidString(text), src: src}
	}

	submit := func(sp evSpec) {
		x := &c19Expect{title: sp.base.Title, viaHTTP: sp.viaHTTP}
		exps = append(exps, x)
		byTitle[x.title] = x
		base := sp.base
		if base.DateHappened == 0 {
			base.DateHappened = time.Now().Unix() // receipt time, on the datagram path and on the HTTP path alike
		}
		bcopy := base
		unpeeked[sp.src] = append(unpeeked[sp.src], &c19Unpeeked{x: x, base: &bcopy})
		nUnpeeked++
		if sp.viaHTTP {
			e.Probe("event-via-http")
			msg := &pb.EventV2{Title: base.Title, Text: base.Text, DateHappened: sp.base.DateHappened, Hostname: sp.src, AggregationKey: base.AggregationKey, SourceTypeName: base.SourceTypeName, Tags: base.Tags}
			if base.Priority == gostatsd.PriLow {
				msg.Priority = pb.EventV2_Low
			}
			switch base.AlertType {
			case gostatsd.AlertWarning:
				msg.Type = pb.EventV2_Warning
			case gostatsd.AlertError:
				msg.Type = pb.EventV2_Error
			case gostatsd.AlertSuccess:
				msg.Type = pb.EventV2_Success
			}
			body, _ := proto.Marshal(msg)
			httpBusy.Add(1)
			wg.Add(1)
			go func() {
				defer wg.Done()
				defer httpBusy.Add(-1)
				// net/http cancels the request context as soon as the handler has returned
				rctx, rcancel := context.WithCancel(context.Background())
				r := &HTTPReq{Method: "POST", Host: "in", Path: "/v2/event", Header: map[string][]string{}, Body: body}
				r.req = nil
				resp := fab.ServeCtx(rctx, r)
				rcancel()
				if resp.StatusCode != 202 {
					e.Report("C19/http-event-refused", "a well-formed /v2/event request was answered %d", resp.StatusCode)
				}
				x.accepted = true
			}()
			e.Event("http event %s from %s", x.title, sp.src)
		} else {
			e.Probe("event-via-datagram")
			ip := net.ParseIP(sp.src)
			sock.Deliver(&Dgram{ID: nEv, Payload: []byte(sp.line), Addr: &net.UDPAddr{IP: ip, Port: 999}})
			x.accepted = true // accepted from the network; the parser may still be blocked handing it on
			e.Event("datagram event %q from %s", sp.line, sp.src)
		}
	}

	nSteps := e.Range(3, 35*e.Depth())
	for step := 0; step < nSteps; step++ {
		acceptSink()
		check(false)
		e.Check()
		var heldAll []*Parked
		for _, b := range ebs {
			heldAll = append(heldAll, b.gate.Parked()...)
		}
		heldAll = append(heldAll, yg.gate.Parked()...)
		if len(heldAll) >= maxConc && nBackends > 0 {
			e.Probe("semaphore-full")
		}
		outs := sortedStrKeys2(outstanding)
		e.State("held=%d outstanding=%d parked=%d", len(heldAll), len(outs), len(pendingTitle))
		canSend := 0
		if sock.Waiting() > 0 && !noMoreEvents {
			canSend = 5
		}
		canChange := 0
		if nUnpeeked == 0 {
			canChange = 2 // the cache content only changes while no submitted event is still waiting to be looked at
		}
		canWait := 0
		if !noMoreEvents && step > nSteps/2 {
			canWait = 1
		}
		clearRetries()
		switch e.Weighted("c19", []int{canSend, canChange, 4 * len(outs), 5 * len(heldAll), canWait, 3 * minInt(1, len(retryPending))}) {
		case 5:
			e.Event("back-off time passes")
			time.Sleep(time.Duration(300+e.Draw(1500)) * time.Millisecond)
		case 0:
			sp := genEvent()
			if !sp.viaHTTP && len(pendingTitle) > 0 && nParsers == 1 {
				e.Probe("two-events-one-parser-first-still-held")
				e.Overlap = true
			}
			if !sp.viaHTTP && len(heldAll) > 0 {
				e.Probe("two-events-one-parser-first-still-held")
				e.Overlap = true
			}
			submit(sp)
		case 1:
			s := fmt.Sprintf("10.2.0.%d", 1+e.Draw(3))
			if !sharedSources {
				// the next sender's address (one sender per event)
				s = fmt.Sprintf("10.2.%d.%d", 1+(nEv+1)/200, 1+(nEv+1)%200)
			}
			switch e.Draw(3) {
			case 0:
				cache.set(gostatsd.Source(s), peekEntry{})
			case 1:
				cache.set(gostatsd.Source(s), peekEntry{hit: true})
			case 2:
				cache.set(gostatsd.Source(s), peekEntry{hit: true, inst: instances[e.Draw(len(instances))]})
			}
			e.Event("cache %s changed", s)
		case 2:
			src := outs[e.Choose("complete", len(outs))]
			var inst *gostatsd.Instance
			if e.Chance(2, 3) {
				inst = instances[e.Draw(len(instances))]
				e.Probe("lookup-success")
			} else {
				e.Probe("lookup-failure")
				e.Fault("lookup-failure")
			}
			delete(outstanding, src)
			for _, wc := range waitCalls {
				if !wc.done.Load() && len(parkedBySrc[src]) > 0 {
					// a pending WaitForEvents and the hand-over of released events now run concurrently:
					// if the stage un-counts an event before the next stage counts it, whether the waiter
					// slips through is the runtime's choice, not the tape's
					e.Unstable("wait-for-events-concurrent-with-release")
				}
			}
			for _, x := range parkedBySrc[src] {
				release(x, *pendingTitle[x.title], inst)
				delete(pendingTitle, x.title)
			}
			delete(parkedBySrc, src)
			e.Event("lookup %s -> %v", src, inst != nil)
			cache.info <- gostatsd.InstanceInfo{IP: gostatsd.Source(src), Instance: inst}
		case 3:
			p := heldAll[e.Choose("release", len(heldAll))]
			e.Probe("backend-held")
			e.Fault("backend-send-stall")
			for _, b := range ebs {
				if b.gate.Name == p.Gate {
					if r, isReq := p.Arg.(*HTTPReq); b.http && isReq && r.Attempt <= 2 && e.Chance(1, 3) { // at most two refusals per event: well inside the retry window
						// the upstream refuses this attempt after reading the request; the forwarder retries after its back-off
						retryPending[r.Canon] = true
						e.Fault("upstream-5xx")
						e.Probe("forwarder-retry")
						b.gate.Release(p, HTTPOutcome{Kind: "status", Status: []int{500, 503}[e.Draw(2)]})
					} else if !b.http && e.Chance(1, 5) {
						// the backend's own request times out: SendEvent returns a context-class error
						e.Fault("backend-send-error")
						e.Probe("backend-send-fails")
						b.releaseFailing(p, []error{context.DeadlineExceeded, context.Canceled, fmt.Errorf("post event: %w", context.DeadlineExceeded)}[e.Draw(3)])
					} else {
						b.release(p)
					}
				}
			}
			if p.Gate == "yield" {
				e.Probe("release-parked-before-hand-over")
				yg.gate.Release(p, nil)
			}
			e.Event("release %s %s", p.Gate, p.Key)
		case 4:
			// shutdown-like point: nothing is submitted any more; WaitForEvents is called once
			noMoreEvents = true
			wc := &struct {
				must    []string
				done    atomic.Bool
				checked bool
			}{}
			if httpBusy.Load() == 0 && sock.Waiting() > 0 && nUnpeeked == 0 {
				// acceptance is settled only when no submission is in progress (reader idle, no request in the handler)
				for _, x := range exps {
					if x.accepted {
						wc.must = append(wc.must, x.title)
					}
				}
			}
			if len(heldAll) > 0 || len(pendingTitle) > 0 {
				e.Probe("wait-for-events-while-held")
			}
			waitCalls = append(waitCalls, wc)
			wg.Add(1)
			go func() { defer wg.Done(); ch.WaitForEvents(); wc.done.Store(true) }()
			e.Event("WaitForEvents (%d accepted)", len(wc.must))
		}
	}
	// settle: every lookup is answered (not found), every delivery released
	for i := 0; i < 300; i++ {
		acceptSink()
		check(false)
		e.Check()
		progressed := false
		for _, b := range ebs {
			for _, p := range b.gate.Parked() {
				b.release(p)
				progressed = true
				e.Settle()
			}
		}
		clearRetries()
		if len(retryPending) > 0 {
			time.Sleep(500 * time.Millisecond)
			progressed = true
		}
		for _, p := range yg.gate.Parked() {
			yg.gate.Release(p, nil)
			progressed = true
			e.Settle()
		}
		e.Settle()
		seePeeks() // a parser unblocked by the releases above may just have asked the cache about the next event
		for _, src := range sortedStrKeys2(outstanding) {
			delete(outstanding, src)
			for _, x := range parkedBySrc[src] {
				release(x, *pendingTitle[x.title], nil)
				delete(pendingTitle, x.title)
			}
			delete(parkedBySrc, src)
			cache.info <- gostatsd.InstanceInfo{IP: gostatsd.Source(src)}
			progressed = true
			e.Settle()
		}
		if !progressed && httpBusy.Load() == 0 {
			break
		}
	}
	e.Settle()
	seePeeks()
	if nUnpeeked > 0 {
		e.Failf("C19/event-never-processed", "%d submitted events were never looked up by the cloud stage", nUnpeeked)
	}
	if len(pendingTitle) > 0 {
		e.Failf("C19/lookup-never-requested", "events %v are still waiting for a lookup that was never requested", pendingTitle)
	}
	check(true)
	for _, wc := range waitCalls {
		if !wc.done.Load() {
			e.Failf("C19/wait-for-events-stuck", "WaitForEvents has not returned although every event has been handed to every backend")
		}
	}
	e.Note["events"] = nEv
}
