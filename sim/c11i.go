package verifsim

// C11, integrated variant: the real CloudHandler on top of the real CachedCloudProvider (lookup
// dispatcher, batching window, refresh, TTLs, eviction) on top of a scripted cloud provider. The stub
// cache of the main C11 world decides "all cache contents at each arrival" directly; here the cache
// contents evolve the way they really do, and what is checked is what the statement says about the
// stage as a whole: every item leaves exactly once, unchanged or enriched with the answer for its
// source, never enriched before an answer existed, and everything has left once lookups succeed.

import (
	"context"
	"fmt"
	"sort"
	"strings"
	"sync"
	"time"

	"github.com/sirupsen/logrus"
	"golang.org/x/time/rate"

	"github.com/atlassian/gostatsd"
	"github.com/atlassian/gostatsd/internal/verifhook"
	"github.com/atlassian/gostatsd/pkg/cachedinstances/cloudprovider"
	"github.com/atlassian/gostatsd/pkg/statsd"
)

type c11iItem struct {
	id      int
	event   bool
	ip      string
	tags    []string
	name    string
	nFwd    int
	wasEnr  bool
	checked int
}

func c11Integrated(e *Env) {
	e.ProbeDecl("integrated-real-cache", "integrated-lookup-failed", "integrated-partial-answer", "integrated-forwarded-enriched", "integrated-forwarded-unchanged", "integrated-cache-hit-later",
		"integrated-several-sources-one-call", "integrated-refresh-call", "integrated-slow-provider", "integrated-handover-delayed")
	e.Probe("integrated-real-cache")
	opts := gostatsd.CacheOptions{
		CacheRefreshPeriod:        []time.Duration{50 * time.Millisecond, 100 * time.Millisecond, time.Second}[e.Draw(3)],
		CacheTTL:                  []time.Duration{200 * time.Millisecond, time.Second, 5 * time.Second, 0}[e.Draw(4)],
		CacheNegativeTTL:          []time.Duration{50 * time.Millisecond, 200 * time.Millisecond, time.Second, 0}[e.Draw(4)],
		CacheEvictAfterIdlePeriod: []time.Duration{300 * time.Millisecond, 2 * time.Second, 10 * time.Second}[e.Draw(3)],
	}
	prov := &scriptedProvider{gate: NewGate("provider"), batch: e.Range(1, 3)}
	ccp := cloudprovider.NewCachedCloudProvider(logrus.StandardLogger(), rate.NewLimiter(rate.Inf, 1), prov, opts)
	down := &RecHandler{Env: e}
	ch := statsd.NewCloudHandler(ccp, down)
	ctx, cancel := context.WithCancel(context.Background())
	var wg sync.WaitGroup
	wg.Add(2)
	go func() { defer wg.Done(); ccp.Run(ctx) }()
	go func() { defer wg.Done(); ch.Run(ctx) }()
	defer wg.Wait()
	defer prov.gate.Open(nil)
	defer cancel()
	// dispatches run on their own goroutines; half of the runs arm the yield sites between Peek and
	// hand-over, so that a lookup can complete (and the cache change) in between
	yg := &yieldGate{gate: NewGate("yield"), anyObj: true, sites: map[string]bool{}}
	if e.Bool() {
		yg.sites["cloudhandler.metrics.before-handover"] = true
		yg.sites["cloudhandler.event.before-handover"] = true
		verifhook.SetYield(yg.fn)
		defer verifhook.SetYield(nil)
		defer yg.gate.Open(nil)
	}
	e.Settle()
	t0 := time.Now()
	// driver instants are congruent to 137us modulo 1ms: never simultaneous with a refresh tick or
	// the end of a batching window (same-instant timers are ordered by the runtime, not the tape)
	sleep := func(d time.Duration) {
		target := time.Since(t0) + d
		adj := 137*time.Microsecond - target%time.Millisecond
		if adj < 0 {
			adj += time.Millisecond
		}
		time.Sleep(d + adj)
	}
	sleep(0)
	e.Event("integrated cfg refresh=%v ttl=%v negttl=%v idle=%v batch=%d", opts.CacheRefreshPeriod, opts.CacheTTL, opts.CacheNegativeTTL, opts.CacheEvictAfterIdlePeriod, prov.batch)

	ips := []string{"10.9.0.1", "10.9.0.2", "10.9.0.3"}
	instOf := func(ip string) *gostatsd.Instance {
		return &gostatsd.Instance{ID: gostatsd.Source("i-" + ip), Tags: gostatsd.Tags{"inst:" + ip[len(ip)-1:], "region:r"}}
	}
	answered := map[string]bool{} // some provider call has returned an instance for this address
	var items []*c11iItem
	byName := map[string]*c11iItem{}
	usedIPs := map[string]bool{}
	mapsSeen, evsSeen := 0, 0

	judge := func(it *c11iItem, tags []string, source string) {
		it.nFwd++
		if it.nFwd > 1 {
			e.Failf("C11/integrated-forwarded-twice", "item %s from %q left the cloud stage %d times", it.name, it.ip, it.nFwd)
		}
		orig := append([]string(nil), it.tags...)
		sort.Strings(orig)
		got := append([]string(nil), tags...)
		sort.Strings(got)
		unchanged := source == it.ip && strings.Join(got, ",") == strings.Join(orig, ",")
		enr := false
		if it.ip != "" {
			in := instOf(it.ip)
			want := append(append([]string(nil), it.tags...), in.Tags...)
			sort.Strings(want)
			enr = source == string(in.ID) && strings.Join(got, ",") == strings.Join(want, ",")
		}
		switch {
		case unchanged:
			e.Probe("integrated-forwarded-unchanged")
		case enr:
			e.Probe("integrated-forwarded-enriched")
			it.wasEnr = true
			if !answered[it.ip] {
				e.Failf("C11/integrated-enriched-without-answer", "item %s from %s left enriched although the provider has never returned an instance for that address", it.name, it.ip)
			}
		default:
			e.Failf("C11/integrated-enrichment", "item %s from %q (tags %v) left as source %q tags %v: neither unchanged nor enriched with the instance of its address", it.name, it.ip, it.tags, source, tags)
		}
	}
	absorb := func() {
		for ; mapsSeen < down.NMaps(); mapsSeen++ {
			obs := down.MapAt(mapsSeen).Obs
			for _, k := range sortedKeys(obs) {
				o := obs[k]
				it := byName[o.Name]
				if it == nil || it.event {
					e.Failf("C11/integrated-unknown-item", "the cloud stage forwarded series %s which nobody sent", k)
				}
				if o.Counter != 1 {
					e.Failf("C11/integrated-value", "series %s left with value %d, sent once with value 1", k, o.Counter)
				}
				judge(it, o.Tags, o.Source)
			}
		}
		for ; evsSeen < down.NEvents(); evsSeen++ {
			ev := down.EventAt(evsSeen).Copy
			it := byName[ev.Title]
			if it == nil || !it.event {
				e.Failf("C11/integrated-unknown-item", "the cloud stage forwarded event %q which nobody sent", ev.Title)
			}
			judge(it, ev.Tags, string(ev.Source))
		}
	}
	answer := func(p *Parked, kind int) {
		c := p.Arg.(*provCall)
		out := provOutcome{m: map[gostatsd.Source]*gostatsd.Instance{}}
		for _, ip := range c.ips {
			if answered[string(ip)] {
				e.Probe("integrated-refresh-call") // an address asked about again: TTL refresh or a second lookup
			}
		}
		switch kind {
		case 0: // full
			for _, ip := range c.ips {
				out.m[ip] = instOf(string(ip))
				answered[string(ip)] = true
			}
		case 1: // partial: every other address
			for i, ip := range c.ips {
				if i%2 == 0 {
					out.m[ip] = instOf(string(ip))
					answered[string(ip)] = true
				}
			}
			e.Probe("integrated-partial-answer")
			e.Fault("provider-partial")
		case 2:
			e.Probe("integrated-lookup-failed")
			e.Fault("provider-empty")
		case 3:
			out = provOutcome{err: []error{fmt.Errorf("simulated provider error"), fmt.Errorf("describe instances: %w", context.DeadlineExceeded), fmt.Errorf("describe instances: %w", context.Canceled)}[e.Draw(3)]}
			e.Probe("integrated-lookup-failed")
			e.Fault("provider-error")
		}
		if len(c.ips) > 1 {
			e.Probe("integrated-several-sources-one-call")
		}
		e.Event("provider %s -> %s", p.Key, []string{"full", "partial", "empty", "error"}[kind])
		prov.gate.Release(p, out)
	}

	nextID := 0
	newItem := func(event bool) *c11iItem {
		nextID++
		it := &c11iItem{id: nextID, event: event, ip: append([]string{""}, ips...)[e.Draw(len(ips)+1)]}
		if e.Bool() {
			it.tags = []string{fmt.Sprintf("t:%d", e.Draw(3))}
		}
		if event {
			it.name = fmt.Sprintf("iev%d", nextID)
		} else {
			it.name = fmt.Sprintf("i.m%d", nextID)
		}
		items = append(items, it)
		byName[it.name] = it
		if it.ip != "" {
			if answered[it.ip] {
				e.Probe("integrated-cache-hit-later")
			}
			usedIPs[it.ip] = true
			if len(usedIPs) > 1 {
				// which of several addresses the cache refreshes (and batches) first follows a Go map walk
				e.Unstable("refresh-order-of-several-sources")
			}
		}
		return it
	}

	nSteps := e.Range(3, 40*e.Depth())
	for step := 0; step < nSteps; step++ {
		e.Settle()
		absorb()
		e.Check()
		pp := prov.gate.Parked()
		e.State("integrated parked-calls=%d items=%d answered=%d", len(pp), len(items), len(answered))
		yP := yg.gate.Parked()
		switch e.Weighted("c11i", []int{4, 2, 5 * len(pp), 3, 3 * len(yP)}) {
		case 4:
			p := yP[e.Choose("yield", len(yP))]
			e.Probe("integrated-handover-delayed")
			e.Fault("dispatcher-preempted-before-handover")
			e.Event("release %s", p.Key)
			yg.gate.Release(p, nil)
		case 0:
			mm := gostatsd.NewMetricMap(false)
			var desc []string
			for i, n := 0, e.Range(1, 3); i < n; i++ {
				it := newItem(false)
				mm.Receive(&gostatsd.Metric{Name: it.name, Type: gostatsd.COUNTER, Value: 1, Rate: 1, Tags: append(gostatsd.Tags(nil), it.tags...), Source: gostatsd.Source(it.ip), Timestamp: gostatsd.Nanotime(it.id)})
				desc = append(desc, fmt.Sprintf("%s@%s%v", it.name, it.ip, it.tags))
			}
			e.Event("metrics %s", strings.Join(desc, " "))
			wg.Add(1)
			go func() { defer wg.Done(); ch.DispatchMetricMap(ctx, mm) }()
		case 1:
			it := newItem(true)
			e.Event("event %s@%s%v", it.name, it.ip, it.tags)
			ev := &gostatsd.Event{Title: it.name, Text: "x", Source: gostatsd.Source(it.ip), Tags: append(gostatsd.Tags(nil), it.tags...)}
			wg.Add(1)
			go func() { defer wg.Done(); ch.DispatchEvent(ctx, ev) }()
		case 2:
			p := pp[e.Choose("call", len(pp))]
			if time.Since(p.Arg.(*provCall).at) > time.Second {
				e.Probe("integrated-slow-provider")
			}
			answer(p, e.Weighted("outcome", []int{4, 1, 1, 2}))
			e.Overlap = true
		case 3:
			d := []time.Duration{5 * time.Millisecond, 20 * time.Millisecond, 60 * time.Millisecond, 250 * time.Millisecond, 1100 * time.Millisecond, 6 * time.Second, 12 * time.Second}[e.Draw(7)]
			e.Event("advance %v", d)
			sleep(d)
		}
	}
	// settle: the provider answers everything in full; time passes for batching windows and re-queries
	for i := 0; ; i++ {
		e.Settle()
		absorb()
		e.Check()
		for _, p := range prov.gate.Parked() {
			answer(p, 0)
			e.Settle()
		}
		for _, p := range yg.gate.Parked() {
			yg.gate.Release(p, nil)
			e.Settle()
		}
		absorb()
		left := 0
		var first *c11iItem
		for _, it := range items {
			if it.nFwd == 0 {
				left++
				if first == nil {
					first = it
				}
			}
		}
		if left == 0 {
			break
		}
		if i > 300 {
			e.Failf("C11/integrated-item-never-forwarded", "%d items never left the cloud stage although the provider has answered every call in full for %v (first: %s from %q)", left, time.Duration(i)*20*time.Millisecond, first.name, first.ip)
		}
		sleep(20 * time.Millisecond)
	}
	e.Note["integrated-items"] = len(items)
}
