package verifsim

// w6_backends.go — world W6: every bundled gostatsd backend, built through its own public constructor and
// wired to simulated transports.
//
//   - HTTP backends (datadog, influxdb, newrelic, otlp) take their *http.Client from a
//     transport.TransportPool by name. BuildBackend creates the pool, fetches the pooled client and
//     replaces its Transport by the Fabric BEFORE the backend is constructed, so every round trip
//     parks at Fabric.Gate.
//   - Socket backends (graphite, statsdaemon) keep an unexported sender.Sender; hook H3
//     (VerifSetConnFactory, build tag "verif") replaces its ConnFactory by ConnSim.Factory(), so a dial
//     parks at ConnSim.DialGate and every Write at ConnSim.WriteGate.
//   - cloudwatch is built by hook H4 (NewClientFromViperWithCloudwatch) around a CWSim instead of an
//     AWS SDK client; every PutMetricData parks at CWSim.Gate.
//   - stdout and null talk to nothing.
//
// Nothing here opens a socket or starts a goroutine: background loops of a backend (sender.Run, the
// internal-metrics loops of datadog/influxdb/newrelic) are handed to the caller as BuiltBackend.Run.

import (
	"context"
	"errors"
	"fmt"
	"io"
	"net"
	"sync"
	"time"

	awscw "github.com/aws/aws-sdk-go-v2/service/cloudwatch"
	"github.com/sirupsen/logrus"
	"github.com/spf13/viper"

	"github.com/atlassian/gostatsd"
	"github.com/atlassian/gostatsd/pkg/backends/cloudwatch"
	"github.com/atlassian/gostatsd/pkg/backends/datadog"
	"github.com/atlassian/gostatsd/pkg/backends/graphite"
	"github.com/atlassian/gostatsd/pkg/backends/influxdb"
	"github.com/atlassian/gostatsd/pkg/backends/newrelic"
	"github.com/atlassian/gostatsd/pkg/backends/null"
	"github.com/atlassian/gostatsd/pkg/backends/otlp"
	"github.com/atlassian/gostatsd/pkg/backends/sender"
	"github.com/atlassian/gostatsd/pkg/backends/statsdaemon"
	"github.com/atlassian/gostatsd/pkg/backends/stdout"
	"github.com/atlassian/gostatsd/pkg/transport"
)

// ---------------------------------------------------------------------------------------------
// ConnSim: scripted net.Conn factory for the socket backends

// ConnOutcome is the scheduler's decision for one parked dial: Err == nil hands out a fresh connection.
type ConnOutcome struct{ Err error }

// WriteOutcome is the scheduler's decision for one parked Write. N < 0 means "all bytes". With
// 0 <= N < len(data) and Err == nil the Write returns (N, io.ErrShortWrite), as net.Conn requires a
// non-nil error for a short write.
type WriteOutcome struct {
	N   int
	Err error
}

// ConnWrite is the record of one Write call (also the Arg of its Parked entry at WriteGate).
type ConnWrite struct {
	Conn    *Conn
	Seq     int    // 0-based index of the call on its connection
	Data    []byte // private copy of what the backend tried to write (the backend recycles its buffers)
	N       int    // bytes accepted; valid once Done
	Err     error  // error returned; valid once Done
	Done    bool   // the call has returned
	At      time.Time
	EndAt   time.Time
	Aborted bool // the connection was closed / the gate opened while the call was parked
}

// Conn is one simulated connection handed out by ConnSim.Factory().
type Conn struct {
	ID  int // 0-based, in the order the dials succeeded
	sim *ConnSim

	// All fields below are guarded by sim.mu; read them through the accessor methods while the system runs.
	Written       [][]byte // accepted bytes, one entry per Write call that accepted at least one byte, in order
	Closed        bool
	nWrites       int
	WriteDeadline time.Time // last deadline set by SetWriteDeadline / SetDeadline (never enforced: the scheduler decides)
}

// ConnSim is a scripted net.Conn factory for socket backends (graphite, statsdaemon udp/tcp).
//
// Dial (the sender.ConnFactory call) parks at DialGate with key "dial#<n>" (n = 0-based number of the
// dial, Arg = n) and is released with ConnOutcome{Err: error or nil}.
// Every Write on a connection parks at WriteGate with key "write#<conn>#<n>:<first 24 bytes>"
// (Arg = *ConnWrite) and is released with WriteOutcome{N, Err}.
// Close never blocks. Read returns io.EOF. SetDeadline etc. return nil.
// When a gate has been Open()ed with nil, Dial returns errConnRefused and Write returns errConnReset.
type ConnSim struct {
	DialGate  *Gate
	WriteGate *Gate

	mu     sync.Mutex
	nDials int
	Dials  []error      // outcome of every finished dial, in order of completion (nil = connected)
	Conns  []*Conn      // every connection handed out
	Writes []*ConnWrite // every Write call that accepted at least one byte, in global order of completion
	Calls  []*ConnWrite // every Write call, in order of arrival
}

func NewConnSim() *ConnSim {
	return &ConnSim{DialGate: NewGate("dial"), WriteGate: NewGate("write")}
}

// Factory returns the sender.ConnFactory to install in a backend (hook H3).
func (c *ConnSim) Factory() sender.ConnFactory { return c.dial }

func (c *ConnSim) dial() (net.Conn, error) {
	c.mu.Lock()
	n := c.nDials
	c.nDials++
	c.mu.Unlock()
	o := c.DialGate.Arrive(fmt.Sprintf("dial#%d", n), n)
	var err error
	switch out := o.(type) {
	case nil: // gate opened at the end of a run
		err = errConnRefused
	case ConnOutcome:
		err = out.Err
	default:
		err = fmt.Errorf("connsim: unknown dial outcome %T", o)
	}
	c.mu.Lock()
	defer c.mu.Unlock()
	c.Dials = append(c.Dials, err)
	if err != nil {
		return nil, err
	}
	conn := &Conn{ID: len(c.Conns), sim: c}
	c.Conns = append(c.Conns, conn)
	return conn, nil
}

// NDials is the number of dials started so far; NConns the number of connections handed out.
func (c *ConnSim) NDials() int { c.mu.Lock(); defer c.mu.Unlock(); return c.nDials }
func (c *ConnSim) NConns() int { c.mu.Lock(); defer c.mu.Unlock(); return len(c.Conns) }
func (c *ConnSim) ConnAt(i int) *Conn {
	c.mu.Lock()
	defer c.mu.Unlock()
	return c.Conns[i]
}

// AllWritten returns the bytes accepted so far over all connections, in global order, as one copy.
func (c *ConnSim) AllWritten() []byte {
	c.mu.Lock()
	defer c.mu.Unlock()
	var out []byte
	for _, w := range c.Writes {
		out = append(out, w.Data[:w.N]...)
	}
	return out
}

// WrittenChunks returns a copy of the accepted bytes of every successful Write in global order
// (one element per Write call: for statsdaemon-udp one element is one datagram).
func (c *ConnSim) WrittenChunks() [][]byte {
	c.mu.Lock()
	defer c.mu.Unlock()
	out := make([][]byte, 0, len(c.Writes))
	for _, w := range c.Writes {
		out = append(out, append([]byte(nil), w.Data[:w.N]...))
	}
	return out
}

type simAddr string

func (a simAddr) Network() string { return "sim" }
func (a simAddr) String() string  { return string(a) }

func (k *Conn) Write(b []byte) (int, error) {
	s := k.sim
	s.mu.Lock()
	if k.Closed {
		s.mu.Unlock()
		return 0, net.ErrClosed
	}
	w := &ConnWrite{Conn: k, Seq: k.nWrites, Data: append([]byte(nil), b...), At: time.Now()}
	k.nWrites++
	s.Calls = append(s.Calls, w)
	s.mu.Unlock()
	head := w.Data
	if len(head) > 24 {
		head = head[:24]
	}
	o := s.WriteGate.Arrive(fmt.Sprintf("write#%d#%d:%s", k.ID, w.Seq, head), w)
	n, err := 0, error(nil)
	aborted := false
	switch out := o.(type) {
	case nil: // gate opened at the end of a run
		err, aborted = errConnReset, true
	case WriteOutcome:
		n, err = out.N, out.Err
		if n < 0 || n > len(b) {
			n = len(b)
		}
		if err == nil && n < len(b) {
			err = io.ErrShortWrite
		}
	default:
		err = fmt.Errorf("connsim: unknown write outcome %T", o)
	}
	s.mu.Lock()
	w.N, w.Err, w.Done, w.EndAt, w.Aborted = n, err, true, time.Now(), aborted
	if n > 0 {
		k.Written = append(k.Written, w.Data[:n])
		s.Writes = append(s.Writes, w)
	}
	s.mu.Unlock()
	return n, err
}

func (k *Conn) Read(b []byte) (int, error) { return 0, io.EOF }

func (k *Conn) Close() error {
	k.sim.mu.Lock()
	defer k.sim.mu.Unlock()
	if k.Closed {
		return net.ErrClosed
	}
	k.Closed = true
	return nil
}

func (k *Conn) IsClosed() bool { k.sim.mu.Lock(); defer k.sim.mu.Unlock(); return k.Closed }

// WrittenCopy returns a copy of Written.
func (k *Conn) WrittenCopy() [][]byte {
	k.sim.mu.Lock()
	defer k.sim.mu.Unlock()
	out := make([][]byte, len(k.Written))
	for i, b := range k.Written {
		out[i] = append([]byte(nil), b...)
	}
	return out
}

func (k *Conn) LocalAddr() net.Addr  { return simAddr(fmt.Sprintf("sim-local:%d", k.ID)) }
func (k *Conn) RemoteAddr() net.Addr { return simAddr(fmt.Sprintf("sim-remote:%d", k.ID)) }
func (k *Conn) SetDeadline(t time.Time) error {
	return k.SetWriteDeadline(t)
}
func (k *Conn) SetReadDeadline(t time.Time) error { return nil }
func (k *Conn) SetWriteDeadline(t time.Time) error {
	k.sim.mu.Lock()
	k.WriteDeadline = t
	k.sim.mu.Unlock()
	return nil
}

var _ net.Conn = (*Conn)(nil)

// ---------------------------------------------------------------------------------------------
// CWSim: scripted cloudwatch.CloudwatchClient

// CWOutcome is the scheduler's decision for one parked PutMetricData call.
type CWOutcome struct{ Err error }

var errCWUnavailable = errors.New("cloudwatch: ServiceUnavailable (simulated)")

// CWSim implements cloudwatch.CloudwatchClient: PutMetricData parks at Gate with key "put#<n>"
// (n = 0-based number of the call, Arg = the *PutMetricDataInput) and is released with CWOutcome{Err}.
// Every input is recorded in Inputs (in order of arrival). When the gate has been Open()ed with nil the
// call fails with errCWUnavailable; when the caller's context ends while parked it returns ctx.Err(),
// like the AWS SDK would.
type CWSim struct {
	Gate *Gate

	mu     sync.Mutex
	Inputs []*awscw.PutMetricDataInput
	Errs   []error // outcome per finished call, in order of completion
}

func NewCWSim() *CWSim { return &CWSim{Gate: NewGate("cloudwatch")} }

func (c *CWSim) PutMetricData(ctx context.Context, in *awscw.PutMetricDataInput, _ ...func(*awscw.Options)) (*awscw.PutMetricDataOutput, error) {
	// the backend hands over a sub-slice of one big datum slice: keep our own copy of the slice header's content
	rec := *in
	rec.MetricData = append(rec.MetricData[:0:0], in.MetricData...)
	c.mu.Lock()
	n := len(c.Inputs)
	c.Inputs = append(c.Inputs, &rec)
	c.mu.Unlock()
	o, err := c.Gate.ArriveCtx(ctx, fmt.Sprintf("put#%d", n), &rec)
	if err == nil {
		switch out := o.(type) {
		case nil:
			err = errCWUnavailable
		case CWOutcome:
			err = out.Err
		default:
			err = fmt.Errorf("cwsim: unknown outcome %T", o)
		}
	}
	c.mu.Lock()
	c.Errs = append(c.Errs, err)
	c.mu.Unlock()
	if err != nil {
		return nil, err
	}
	return &awscw.PutMetricDataOutput{}, nil
}

func (c *CWSim) NInputs() int { c.mu.Lock(); defer c.mu.Unlock(); return len(c.Inputs) }
func (c *CWSim) Input(i int) *awscw.PutMetricDataInput {
	c.mu.Lock()
	defer c.mu.Unlock()
	return c.Inputs[i]
}

var _ cloudwatch.CloudwatchClient = (*CWSim)(nil)

// ---------------------------------------------------------------------------------------------
// BuildBackend

// BackendSpec selects a backend kind and the knobs the simulator varies. Everything else keeps the
// backend's own default.
type BackendSpec struct {
	Kind         string                 // one of BackendKinds
	BatchSize    int                    // metrics-per-batch where the backend has such a knob; 0 = backend default
	Compress     bool                   // where supported (datadog, influxdb, otlp); NOTE: always set explicitly, so false means "off" although these backends default to on
	Disabled     gostatsd.TimerSubtypes // disabled timer sub-metrics
	MaxRequests  int                    // 0 = backend default (which depends on runtime.NumCPU())
	RetryWindow  time.Duration          // max-request-elapsed-time; 0 = backend default (15s)
	ResourceKeys []string               // otlp only: tag keys moved from data point attributes to resource attributes

	// FlushInterval is the top level "flush-interval" (datadog / newrelic copy it into every point as
	// "interval"). 0 = W6DefaultFlushInterval. (Addition to the work order's struct.)
	FlushInterval time.Duration
}

const W6DefaultFlushInterval = 10 * time.Second

// Constants that end up on the wire, for the decoders' callers.
const (
	W6DatadogAPIKey     = "w6-datadog-key"
	W6NewRelicAPIKey    = "w6-newrelic-key"
	W6InfluxDatabase    = "w6db"
	W6InfluxBucket      = "w6bucket"
	W6InfluxOrg         = "w6org"
	W6CloudwatchNS      = "W6StatsD"
	W6NewRelicEventType = "GoStatsD"
)

var BackendKinds = []string{"graphite-legacy", "graphite-basic", "graphite-tags", "statsdaemon-udp", "statsdaemon-tcp",
	"datadog", "influxdb-v1", "influxdb-v2", "newrelic-infra", "newrelic-insights", "newrelic-metrics",
	"otlp-gauge", "otlp-histogram", "cloudwatch", "stdout", "null"}

type BuiltBackend struct {
	Spec      BackendSpec
	Backend   gostatsd.Backend
	Run       func(ctx context.Context) // non-nil if the backend implements gostatsd.Runner (sender loops, internal-metrics loops); the caller starts it and ends it by cancelling ctx
	Host      string                    // fabric host name the HTTP backend posts to ("" for non-HTTP)
	Path      string                    // URL path of the metrics endpoint ("" for non-HTTP)
	OKStatus  int                       // the status a healthy upstream of this kind answers with (the backends accept 200..204; otlp any 2xx)
	Transport string                    // "http" | "conn" | "cloudwatch" | "none"

	// ClientTimeout is the Timeout of the pooled *http.Client (transport "default": 10s), 0 for non-HTTP.
	// For every request net/http keeps a timer goroutine alive until the response body is CLOSED or this
	// much time has passed. The otlp backend reads its response bodies but never closes them, so after
	// an otlp run the caller must let ClientTimeout of bubble time pass (time.Sleep) before it leaves the
	// bubble; otherwise synctest reports the leftover goroutines as a deadlock.
	ClientTimeout time.Duration
}

// W6HTTPPath is where each HTTP kind posts its metrics (host = the kind's name).
var w6HTTPPath = map[string]struct {
	path   string
	status int
}{
	"datadog":           {"/api/v1/series", 202},
	"influxdb-v1":       {"/write", 204},
	"influxdb-v2":       {"/api/v2/write", 204},
	"newrelic-infra":    {"/v1/data", 204},
	"newrelic-insights": {"/v1/accounts/1/events", 200},
	"newrelic-metrics":  {"/metric/v1", 202},
	"otlp-gauge":        {"/v1/metrics", 200},
	"otlp-histogram":    {"/v1/metrics", 200},
}

// setDisabled writes d under prefix using the given key names (order: the fields of TimerSubtypes).
func setDisabled(v *viper.Viper, prefix string, keys [15]string, d gostatsd.TimerSubtypes) {
	vals := [15]bool{d.Lower, d.LowerPct, d.Upper, d.UpperPct, d.Count, d.CountPct, d.CountPerSecond, d.Mean, d.MeanPct,
		d.Median, d.StdDev, d.Sum, d.SumPct, d.SumSquares, d.SumSquaresPct}
	for i, k := range keys {
		v.Set(prefix+"."+k, vals[i])
	}
}

// keys of the top level [disabled-sub-metrics] stanza as read by gostatsd.DisabledSubMetrics
var disabledKeysMain = [15]string{"lower", "lower-pct", "upper", "upper-pct", "count", "count-pct", "count-per-second", "mean", "mean-pct",
	"median", "stddev", "sum", "sum-pct", "sum-squares", "sum-squares-pct"}

// keys of [otlp.disabled_timer_aggregations]: mapstructure matches the (untagged) field names of
// gostatsd.TimerSubtypes case-insensitively
var disabledKeysOTLP = [15]string{"lower", "lowerpct", "upper", "upperpct", "count", "countpct", "countpersecond", "mean", "meanpct",
	"median", "stddev", "sum", "sumpct", "sumsquares", "sumsquarespct"}

// BuildBackend constructs the real backend through its own public constructor (NewClientFromViper),
// with its *http.Client's Transport replaced by fab, or its sender.ConnFactory replaced by
// conns.Factory() (hook H3), or its CloudWatch client replaced by cw (hook H4).
// The simulated transport a kind does not use may be nil.
func BuildBackend(spec BackendSpec, fab *Fabric, conns *ConnSim, cw *CWSim) (*BuiltBackend, error) {
	logger := logrus.StandardLogger()
	v := viper.New()
	fi := spec.FlushInterval
	if fi == 0 {
		fi = W6DefaultFlushInterval
	}
	v.Set("flush-interval", fi)
	setDisabled(v, "disabled-sub-metrics", disabledKeysMain, spec.Disabled)

	bb := &BuiltBackend{Spec: spec, Transport: "none"}

	// The pool is private to this backend. Its "default" client is created now and given the fabric as
	// Transport; the backend's constructor then receives this very client from pool.Get("default").
	// (The pooled client keeps its client-timeout of 10s, which runs on the bubble's clock.)
	pool := transport.NewTransportPool(logger, v)
	if hp, ok := w6HTTPPath[spec.Kind]; ok {
		if fab == nil {
			return nil, fmt.Errorf("w6: kind %q needs a Fabric", spec.Kind)
		}
		cl, err := pool.Get("default")
		if err != nil {
			return nil, fmt.Errorf("w6: transport pool: %v", err)
		}
		cl.Client.Transport = fab
		bb.Transport, bb.Host, bb.Path, bb.OKStatus = "http", spec.Kind, hp.path, hp.status
		bb.ClientTimeout = cl.Client.Timeout
	}
	base := "http://" + spec.Kind

	// optional knobs shared by the four HTTP backends (key spelling differs per backend)
	httpKnobs := func(prefix, batch, maxReq, window string) {
		if spec.BatchSize > 0 {
			v.Set(prefix+"."+batch, spec.BatchSize)
		}
		if spec.MaxRequests > 0 {
			v.Set(prefix+"."+maxReq, spec.MaxRequests)
		}
		if spec.RetryWindow != 0 {
			v.Set(prefix+"."+window, spec.RetryWindow.String())
		}
	}

	var err error
	switch spec.Kind {
	case "graphite-legacy", "graphite-basic", "graphite-tags":
		if conns == nil {
			return nil, fmt.Errorf("w6: kind %q needs a ConnSim", spec.Kind)
		}
		v.Set("graphite.address", spec.Kind+":2003") // never dialled
		v.Set("graphite.mode", spec.Kind[len("graphite-"):])
		bb.Backend, err = graphite.NewClientFromViper(v, logger, pool)
		if err == nil {
			bb.Backend.(*graphite.Client).VerifSetConnFactory(conns.Factory())
			bb.Transport = "conn"
		}

	case "statsdaemon-udp", "statsdaemon-tcp":
		if conns == nil {
			return nil, fmt.Errorf("w6: kind %q needs a ConnSim", spec.Kind)
		}
		v.Set("statsdaemon.address", spec.Kind+":8125") // never dialled
		v.Set("statsdaemon.tcp_transport", spec.Kind == "statsdaemon-tcp")
		v.Set("statsdaemon.disable_tags", false)
		bb.Backend, err = statsdaemon.NewClientFromViper(v, logger, pool)
		if err == nil {
			bb.Backend.(*statsdaemon.Client).VerifSetConnFactory(conns.Factory())
			bb.Transport = "conn"
		}

	case "datadog":
		v.Set("datadog.api_endpoint", base)
		v.Set("datadog.api_key", W6DatadogAPIKey)
		v.Set("datadog.transport", "default")
		v.Set("datadog.compress_payload", spec.Compress)
		httpKnobs("datadog", "metrics_per_batch", "max_requests", "max_request_elapsed_time")
		bb.Backend, err = datadog.NewClientFromViper(v, logger, pool)

	case "influxdb-v1", "influxdb-v2":
		v.Set("influxdb.api-endpoint", base)
		v.Set("influxdb.transport", "default")
		v.Set("influxdb.compress-payload", spec.Compress)
		if spec.Kind == "influxdb-v1" {
			v.Set("influxdb.api-version", 1)
			v.Set("influxdb.database", W6InfluxDatabase)
		} else {
			v.Set("influxdb.api-version", 2)
			v.Set("influxdb.bucket", W6InfluxBucket)
			v.Set("influxdb.org", W6InfluxOrg)
		}
		httpKnobs("influxdb", "metrics-per-batch", "max-requests", "max-request-elapsed-time")
		bb.Backend, err = influxdb.NewClientFromViper(v, logger, pool)

	case "newrelic-infra", "newrelic-insights", "newrelic-metrics":
		ft := spec.Kind[len("newrelic-"):]
		v.Set("newrelic.transport", "default")
		v.Set("newrelic.flush-type", ft)
		v.Set("newrelic.event-type", W6NewRelicEventType)
		switch ft {
		case "infra":
			v.Set("newrelic.address", base+bb.Path)
		case "insights":
			v.Set("newrelic.address", base+bb.Path)
			v.Set("newrelic.api-key", W6NewRelicAPIKey)
		case "metrics":
			v.Set("newrelic.address", base+"/v1/accounts/1/events") // events only
			v.Set("newrelic.address-metrics", base+bb.Path)
			v.Set("newrelic.api-key", W6NewRelicAPIKey)
		}
		httpKnobs("newrelic", "metrics-per-batch", "max-requests", "max-request-elapsed-time")
		bb.Backend, err = newrelic.NewClientFromViper(v, logger, pool)

	case "otlp-gauge", "otlp-histogram":
		v.Set("otlp.metrics_endpoint", base+bb.Path)
		v.Set("otlp.logs_endpoint", base+"/v1/logs")
		v.Set("otlp.transport", "default")
		v.Set("otlp.compress_payload", spec.Compress)
		if spec.Kind == "otlp-gauge" {
			v.Set("otlp.conversion", otlp.ConversionAsGauge)
		} else {
			v.Set("otlp.conversion", otlp.ConversionAsHistogram)
		}
		if len(spec.ResourceKeys) > 0 {
			v.Set("otlp.resource_keys", spec.ResourceKeys)
		}
		setDisabled(v, "otlp.disabled_timer_aggregations", disabledKeysOTLP, spec.Disabled)
		httpKnobs("otlp", "metrics_per_batch", "max_requests", "max_request_elapsed_time")
		bb.Backend, err = otlp.NewClientFromViper(v, logger, pool)

	case "cloudwatch":
		if cw == nil {
			return nil, fmt.Errorf("w6: kind %q needs a CWSim", spec.Kind)
		}
		v.Set("cloudwatch.namespace", W6CloudwatchNS)
		bb.Backend, err = cloudwatch.NewClientFromViperWithCloudwatch(v, logger, cw)
		bb.Transport = "cloudwatch"

	case "stdout":
		bb.Backend, err = stdout.NewClientFromViper(v, logger, pool)

	case "null":
		bb.Backend, err = null.NewClientFromViper(v, logger, pool)

	default:
		return nil, fmt.Errorf("w6: unknown backend kind %q", spec.Kind)
	}
	if err != nil {
		return nil, fmt.Errorf("w6: %s: %v", spec.Kind, err)
	}
	if r, ok := bb.Backend.(gostatsd.Runner); ok {
		bb.Run = r.Run
	}
	return bb, nil
}
