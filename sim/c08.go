package verifsim

// C08 — timer statistics and histograms are those of the received multiset.
// World W1: which values land in which flush, through which parser and shard and in which order is
// the scheduler's choice; the reference recomputes every statistic from the multiset it attributes
// to the flush.

import (
	"fmt"
	"math"
	"sort"
	"strconv"
	"strings"
	"time"

	"github.com/atlassian/gostatsd"
)

func init() { register("C08", func() Property { return c08{} }) }

type c08 struct{}

func (c08) ID() string { return "C08" }

type pctStat struct {
	k                    int
	sum, sumsq, mean, bd float64
}

// refPercentile computes the aggregates of the k lowest (p>0) or k highest (p<0) values of sorted v.
func refPercentile(v []float64, p float64) (pctStat, bool) {
	n := len(v)
	if n == 0 {
		return pctStat{}, false
	}
	k := int(math.Floor(math.Abs(p)/100*float64(n) + 0.5))
	if n == 1 {
		k = 1
	}
	if k == 0 {
		return pctStat{}, false
	}
	if k > n {
		k = n
	}
	var part []float64
	var bd float64
	if p > 0 || (p == 0) {
		part = v[:k]
		bd = v[k-1]
	} else {
		part = v[n-k:]
		bd = v[n-k]
	}
	st := pctStat{k: k, bd: bd}
	for _, x := range part {
		st.sum += x
		st.sumsq += x * x
	}
	st.mean = st.sum / float64(k)
	return st, true
}

var histTags = []string{"gsd_histogram:10_20_50", "gsd_histogram:-10_0_2.5_5", "gsd_histogram:10__20", "gsd_histogram:x", "gsd_histogram:",
	"gsd_histogram:5_5_9", "gsd_histogram:1_incorrect_100_1000_10000", "gsd_histogram:+Inf_3", "gsd_histogram:0.5"}

// refBuckets: the finite bucket bounds of a histogram tag, at most limit of them.
func refBuckets(tag string, limit uint32) []float64 {
	var out []float64
	for _, f := range strings.Split(strings.TrimPrefix(tag, "gsd_histogram:"), "_") {
		if v, err := strconv.ParseFloat(f, 64); err == nil {
			out = append(out, v)
		}
	}
	if uint32(len(out)) > limit {
		out = out[:limit]
	}
	return out
}

func (c08) Run(e *Env) {
	e.ProbeDecl("negative-percentile", "percentile-k-equals-n", "percentile-omitted-k0", "single-value", "histogram-timer", "histogram-limit-0", "histogram-truncated", "histogram-malformed", "idle-flush", "sampled", "multi-parser", "all-pct-disabled")
	pool := []float64{90, 95, 99, 50, 100, 1, 10, 0, -90, -50, -99, -100, -1, -10, 75, -25}
	var pcts []float64
	for i, n := 0, e.Draw(5); i < n; i++ {
		pcts = append(pcts, pool[e.Draw(len(pool))])
	}
	var dis gostatsd.TimerSubtypes
	if e.Chance(1, 3) {
		dis.CountPct, dis.MeanPct, dis.SumPct, dis.SumSquaresPct, dis.UpperPct, dis.LowerPct = e.Bool(), e.Bool(), e.Bool(), e.Bool(), e.Bool(), e.Bool()
		dis.Lower, dis.Upper, dis.Count, dis.Mean, dis.Median, dis.StdDev, dis.Sum, dis.SumSquares, dis.CountPerSecond = e.Bool(), e.Bool(), e.Bool(), e.Bool(), e.Bool(), e.Bool(), e.Bool(), e.Bool(), e.Bool()
		if dis.CountPct && dis.MeanPct && dis.SumPct && dis.SumSquaresPct && dis.UpperPct && dis.LowerPct {
			e.Probe("all-pct-disabled")
		}
	}
	cfg := W1Config{
		Readers: e.Range(1, 2), Parsers: e.Range(1, 3), Workers: e.Range(1, 3), Queue: []int{0, 1, 8}[e.Draw(3)], BatchSize: 1,
		Flush:      []time.Duration{100 * time.Millisecond, 250 * time.Millisecond, time.Second, 3 * time.Second, 10 * time.Second}[e.Draw(5)],
		ExpCounter: time.Hour, ExpGauge: time.Hour, ExpSet: time.Hour, ExpTimer: time.Hour,
		Percent:   pcts,
		Disabled:  dis,
		HistLimit: []uint32{0, 1, 2, 3, math.MaxUint32, math.MaxUint32}[e.Draw(6)],
	}
	if cfg.Parsers > 1 {
		e.Probe("multi-parser")
	}
	be := &RecBackend{BName: "rec"}
	cfg.Backends = []gostatsd.Backend{be}
	w := StartW1(cfg)
	defer w.Stop()
	e.Settle()
	t0 := time.Now()
	e.Event("cfg parsers=%d workers=%d flush=%v pcts=%v histlimit=%d disabled=%+v", cfg.Parsers, cfg.Workers, cfg.Flush, pcts, cfg.HistLimit, dis)

	nSeries := e.Range(1, 3)
	type tseries struct {
		name    string
		typ     string
		tags    []string
		histTag string
	}
	var series []*tseries
	for i := 0; i < nSeries; i++ {
		s := &tseries{name: fmt.Sprintf("t%d", e.Draw(2)), typ: []string{"ms", "h"}[e.Draw(2)]} // names repeat: same name under several tag sets
		if e.Chance(1, 3) {
			s.histTag = histTags[e.Draw(len(histTags))]
			s.tags = append(s.tags, s.histTag)
		}
		if e.Bool() {
			s.tags = append(s.tags, tagPool[e.Draw(len(tagPool))])
		}
		dupSeries := false
		for _, o := range series {
			if o.name == s.name && strings.Join(o.tags, ",") == strings.Join(s.tags, ",") {
				dupSeries = true
			}
		}
		if dupSeries {
			s.tags = append(s.tags, fmt.Sprintf("u:%d", i))
		}
		series = append(series, s)
	}
	type acc struct {
		values  []float64
		sampled float64
	}
	cur := map[SeriesKey]*acc{}
	known := map[SeriesKey]*tseries{}
	fc := &flushCollector{be: be, workers: cfg.Workers}
	lastFlushAt := t0

	check := func(f *FlushObs) {
		e.Event("flush %d obs=%s", f.Idx, CanonObs(f.Obs))
		interval := f.At.Sub(lastFlushAt).Seconds()
		lastFlushAt = f.At
		for _, k := range sortedKeys(known) {
			s := known[k]
			o := f.Obs[k]
			if o == nil {
				e.Failf("C08/timer-missing", "flush %d: timer %s not reported", f.Idx, k)
			}
			a := cur[k]
			if a == nil {
				a = &acc{}
				e.Probe("idle-flush")
			}
			v := sortedFloats(a.values)
			n := len(v)
			t := o.Timer
			where := fmt.Sprintf("flush %d timer %s values %s", f.Idx, k, fmtFloats(v))
			if !floatsEqual(sortedFloats(t.Values), v) {
				e.Failf("C08/values", "%s: reported values %s", where, fmtFloats(sortedFloats(t.Values)))
			}
			if s.histTag != "" {
				e.Probe("histogram-timer")
				bounds := refBuckets(s.histTag, cfg.HistLimit)
				want := map[float64]int{}
				if cfg.HistLimit == 0 {
					e.Probe("histogram-limit-0")
				} else {
					for _, b := range bounds {
						if math.IsNaN(b) {
							continue
						}
						c := 0
						for _, x := range v {
							if x <= b {
								c++
							}
						}
						want[b] = c
					}
					want[math.Inf(1)] = n
				}
				if len(refBuckets(s.histTag, math.MaxUint32)) > len(bounds) {
					e.Probe("histogram-truncated")
				}
				if strings.Contains(s.histTag, "x") || strings.Contains(s.histTag, "__") || strings.HasSuffix(s.histTag, ":") || strings.Contains(s.histTag, "incorrect") {
					e.Probe("histogram-malformed")
				}
				got := map[float64]int{}
				nanBuckets := 0
				for b, c := range t.Histogram {
					if math.IsNaN(float64(b)) {
						nanBuckets++
						continue
					}
					got[float64(b)] = c
				}
				if len(got) != len(want) {
					e.Failf("C08/histogram-buckets", "%s tag %q limit %d: buckets %v, expected %v", where, s.histTag, cfg.HistLimit, got, want)
				}
				for b, c := range want {
					if gc, ok := got[b]; !ok || gc != c {
						e.Failf("C08/histogram-counts", "%s tag %q limit %d: buckets %v, expected %v", where, s.histTag, cfg.HistLimit, got, want)
					}
				}
				if t.Count != 0 || t.Mean != 0 || t.Median != 0 || t.Min != 0 || t.Max != 0 || t.StdDev != 0 || t.Sum != 0 || t.SumSquares != 0 || t.PerSecond != 0 || len(t.Percentiles) != 0 {
					e.Failf("C08/histogram-has-summary", "%s: histogram timer carries summary statistics %+v", where, t)
				}
				continue
			}
			if len(t.Histogram) != 0 {
				e.Failf("C08/unexpected-histogram", "%s: plain timer has histogram %v", where, t.Histogram)
			}
			if n == 0 {
				if t.Count != 0 || t.PerSecond != 0 || len(t.Percentiles) != 0 {
					e.Failf("C08/idle-not-zero", "%s: count=%d per-second=%v percentiles=%v", where, t.Count, t.PerSecond, t.Percentiles)
				}
				// nothing was received in this interval: whatever is reported besides the zero count must
				// not be the statistics of an earlier interval's values
				if t.Sum != 0 || t.SumSquares != 0 || t.Min != 0 || t.Max != 0 || t.Mean != 0 || t.Median != 0 || t.StdDev != 0 {
					e.Failf("C08/idle-carries-old-statistics", "%s: no value was received in this interval, yet min=%v max=%v sum=%v sum_squares=%v mean=%v median=%v stddev=%v", where, t.Min, t.Max, t.Sum, t.SumSquares, t.Mean, t.Median, t.StdDev)
				}
				continue
			}
			if n == 1 {
				e.Probe("single-value")
			}
			var sum, sumsq, absSum float64
			for _, x := range v {
				sum += x
				sumsq += x * x
				absSum += math.Abs(x)
			}
			mean := sum / float64(n)
			var sd float64
			for _, x := range v {
				sd += (x - mean) * (x - mean)
			}
			sd = math.Sqrt(sd / float64(n))
			var median float64
			if n%2 == 1 {
				median = v[n/2]
			} else {
				median = (v[n/2-1] + v[n/2]) / 2
			}
			const tol = 1e-9
			chk := func(name string, got, want float64, tl float64) {
				if !approx(got, want, tl) {
					e.Failf("C08/"+name, "%s: %s = %v, expected %v", where, name, got, want)
				}
			}
			if t.Count != int(math.Floor(a.sampled+0.5)) {
				e.Failf("C08/count", "%s: count %d, expected round(%v)", where, t.Count, a.sampled)
			}
			chk("per-second", t.PerSecond, a.sampled/interval, tol)
			chk("min", t.Min, v[0], 0)
			chk("max", t.Max, v[n-1], 0)
			chk("sum", t.Sum, sum, tol)
			chk("sum-squares", t.SumSquares, sumsq, tol)
			chk("mean", t.Mean, mean, tol)
			chk("median", t.Median, median, tol)
			chk("stddev", t.StdDev, sd, 1e-7)
			chk("sampled-count", t.SampledCount, a.sampled, tol)
			// percentiles, matched by name
			got := map[string]float64{}
			for _, p := range t.Percentiles {
				if _, dup := got[p.Str]; dup {
					e.Failf("C08/percentile-duplicate", "%s: percentile %s reported twice", where, p.Str)
				}
				got[p.Str] = p.Float
			}
			want := map[string]float64{}
			wantAlt := map[string]string{} // acceptable alternative name (p == 0 boundary)
			seenP := map[float64]bool{}
			for _, p := range pcts {
				if seenP[p] {
					continue
				}
				seenP[p] = true
				st, ok := refPercentile(v, p)
				if !ok {
					e.Probe("percentile-omitted-k0")
					continue
				}
				if p < 0 {
					e.Probe("negative-percentile")
				}
				if st.k == n && n > 1 {
					e.Probe("percentile-k-equals-n")
				}
				sp := strconv.Itoa(int(p))
				if !dis.CountPct {
					want["count_"+sp] = float64(st.k)
				}
				if !dis.MeanPct {
					want["mean_"+sp] = st.mean
				}
				if !dis.SumPct {
					want["sum_"+sp] = st.sum
				}
				if !dis.SumSquaresPct {
					want["sum_squares_"+sp] = st.sumsq
				}
				if p > 0 && !dis.UpperPct {
					want["upper_"+sp] = st.bd
				}
				if p < 0 && !dis.LowerPct {
					want["lower_"+sp] = st.bd
				}
				if p == 0 {
					// sign-less: the statement does not say which boundary name applies
					if _, ok := got["upper_0"]; ok {
						want["upper_0"] = st.bd
					} else if _, ok := got["lower_0"]; ok {
						want["lower_0"] = st.bd
					}
				}
			}
			_ = wantAlt
			names := make([]string, 0, len(want))
			for nm := range want {
				names = append(names, nm)
			}
			sort.Strings(names)
			for _, nm := range names {
				g, ok := got[nm]
				if !ok {
					e.Failf("C08/percentile-missing", "%s pcts %v: %s not reported (have %v)", where, pcts, nm, t.Percentiles)
				}
				// the percentile aggregates may be formed from running totals, so the admissible
				// rounding error scales with the magnitude of the whole multiset, not of the part
				scale := 1.0
				switch {
				case strings.HasPrefix(nm, "sum_squares_"):
					scale = sumsq
				case strings.HasPrefix(nm, "sum_"), strings.HasPrefix(nm, "mean_"):
					scale = absSum
				}
				if !approx(g, want[nm], 1e-9) && math.Abs(g-want[nm]) > 1e-9*scale {
					e.Failf("C08/percentile-value", "%s pcts %v: %s = %v, expected %v", where, pcts, nm, g, want[nm])
				}
			}
			for nm := range got {
				if _, ok := want[nm]; !ok {
					e.Failf("C08/percentile-unexpected", "%s pcts %v: unexpected %s = %v", where, pcts, nm, got[nm])
				}
			}
		}
		for _, k := range sortedKeys(f.Obs) {
			if known[k] == nil {
				e.Failf("C08/never-sent-series", "flush %d: %s reported but never sent", f.Idx, k)
			}
		}
		cur = map[SeriesKey]*acc{}
	}

	nextTick := func() time.Duration {
		el := time.Since(t0)
		return (el/cfg.Flush+1)*cfg.Flush - el
	}
	nFlushes := e.Range(1, 4*e.Depth())
	id := 0
	for fl := 0; fl < nFlushes; fl++ {
		nd := e.Choose("dgrams-before-flush", 8)
		e.State("flush=%d dgrams=%d known=%d", fl, nd, len(known))
		for d := 0; d < nd; d++ {
			e.Settle()
			if w.Sock.Waiting() == 0 {
				e.Failf("C08/no-reader", "no reader parked at quiescence")
			}
			var dps []DP
			for l, nl := 0, e.Range(1, 5); l < nl; l++ {
				s := series[e.Draw(len(series))]
				id++
				dp := DP{Type: s.typ, Name: s.name, Tags: s.tags, Source: ClientIP(0), ValStr: decimal(e, true), Rate: rates[e.Draw(len(rates))], ID: id}
				if e.Chance(1, 6) && len(dps) > 0 {
					dp.ValStr = dps[len(dps)-1].ValStr // repeated values
				}
				dps = append(dps, dp)
				k := dp.Key("")
				known[k] = s
				a := cur[k]
				if a == nil {
					a = &acc{}
					cur[k] = a
				}
				a.values = append(a.values, dp.Value())
				a.sampled += 1 / dp.RateF()
				if dp.RateF() != 1 {
					e.Probe("sampled")
				}
			}
			payload := joinLines(dps, e.Bool())
			w.Send(0, payload)
			e.Event("deliver %q", payload)
			if e.Choose("idle-after-delivery", 4) == 3 {
				time.Sleep(time.Duration(1+e.Draw(20)) * time.Millisecond)
				e.Settle()
				for f := fc.next(); f != nil; f = fc.next() { // crossed a tick while idling
					check(f)
				}
			}
		}
		e.Settle()
		if f := fc.next(); f != nil {
			check(f)
		}
		e.Advance(nextTick())
		for f := fc.next(); f != nil; f = fc.next() {
			check(f)
		}
		e.Check()
		e.Overlap = true
	}
	e.Note["flushes"] = fc.n
}
