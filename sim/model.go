package verifsim

// model.go: reference model of metric semantics, written from the property statements and the
// README (not from the implementation), plus snapshot helpers that flatten a gostatsd.MetricMap into
// comparable values.

import (
	"fmt"
	"math"
	"sort"
	"strconv"
	"strings"

	"github.com/atlassian/gostatsd"
)

// DP is one datapoint as a client sends it.
type DP struct {
	Type   string // c, ms, h, g, s
	Name   string
	Tags   []string
	Source string
	ValStr string // decimal text (or the set member)
	Rate   string // "" or decimal text in (0,1]
	TS     int64  // receive time (ns), filled in when delivered
	ID     int    // op index, for attribution
	// WireDupTag: the line repeats the first tag (the tag stage de-duplicates; the series is the same)
	WireDupTag bool
}

func (d DP) Line() string {
	var sb strings.Builder
	sb.WriteString(d.Name)
	sb.WriteByte(':')
	sb.WriteString(d.ValStr)
	sb.WriteByte('|')
	sb.WriteString(d.Type)
	if d.Rate != "" {
		sb.WriteString("|@")
		sb.WriteString(d.Rate)
	}
	if len(d.Tags) > 0 {
		sb.WriteString("|#")
		sb.WriteString(strings.Join(d.Tags, ","))
		if d.WireDupTag {
			// the client repeats a tag on the wire: still the same series (tags are a set)
			sb.WriteString("," + d.Tags[0])
		}
	}
	return sb.String()
}

func (d DP) Value() float64 {
	v, err := strconv.ParseFloat(d.ValStr, 64)
	if err != nil {
		panic("model: bad value " + d.ValStr)
	}
	return v
}

func (d DP) RateF() float64 {
	if d.Rate == "" {
		return 1
	}
	v, err := strconv.ParseFloat(d.Rate, 64)
	if err != nil {
		panic("model: bad rate " + d.Rate)
	}
	return v
}

func (d DP) Kind() string {
	switch d.Type {
	case "c":
		return "counter"
	case "ms", "h":
		return "timer"
	case "g":
		return "gauge"
	case "s":
		return "set"
	}
	return "?"
}

// SeriesKey is the identity of a series: type, name, sorted tag multiset, source.
type SeriesKey string

func KeyOf(kind, name string, tags []string, source string) SeriesKey {
	t := append([]string(nil), tags...)
	sort.Strings(t)
	return SeriesKey(kind + "|" + name + "|" + strings.Join(t, ",") + "|" + source)
}

func (d DP) Key(namespace string) SeriesKey {
	n := d.Name
	if namespace != "" {
		n = namespace + "." + n
	}
	return KeyOf(d.Kind(), n, d.Tags, d.Source)
}

// Agg is the reference aggregate of one series.
type Agg struct {
	Kind     string
	Counter  int64
	Values   []float64 // timer values (multiset)
	Sampled  float64   // sum of 1/rate
	Members  map[string]struct{}
	Gauge    float64
	GaugeTS  int64
	GaugeAlt []float64 // all values carrying the newest timestamp (ties: any of them is acceptable)
	LastTS   int64
	N        int
}

type Model map[SeriesKey]*Agg

func (m Model) Add(key SeriesKey, d DP) {
	v := 0.0
	if d.Kind() != "set" {
		v = d.Value()
	}
	m.AddRaw(key, d.Kind(), v, d.RateF(), d.ValStr, d.TS)
}

// AddRaw accumulates one datapoint given as plain values.
func (m Model) AddRaw(key SeriesKey, kind string, value, rate float64, member string, ts int64) {
	a := m[key]
	if a == nil {
		a = &Agg{Kind: kind, Members: map[string]struct{}{}, GaugeTS: math.MinInt64}
		m[key] = a
	}
	a.N++
	if ts > a.LastTS {
		a.LastTS = ts
	}
	switch a.Kind {
	case "counter":
		a.Counter += int64(value / rate) // trunc(value / rate)
	case "timer":
		a.Values = append(a.Values, value)
		a.Sampled += 1 / rate
	case "set":
		a.Members[member] = struct{}{}
	case "gauge":
		if ts > a.GaugeTS {
			a.GaugeTS = ts
			a.Gauge = value
			a.GaugeAlt = []float64{value}
		} else if ts == a.GaugeTS {
			a.Gauge = value // later line of the same instant wins (README)
			a.GaugeAlt = append(a.GaugeAlt, value)
		}
	}
}

// Obs is what the implementation reported for one series in one MetricMap.
type Obs struct {
	Kind      string
	Counter   int64
	PerSecond float64
	Values    []float64
	Sampled   float64
	Members   []string
	Gauge     float64
	TS        int64
	Timer     gostatsd.Timer // full copy for statistics checks
	Tags      []string
	Source    string
	Name      string
}

// Snapshot deep-copies a MetricMap into series observations. A series appearing twice within the
// map (impossible by construction of the map type unless tag keys disagree with tags) is reported.
func Snapshot(mm *gostatsd.MetricMap) (map[SeriesKey]*Obs, []string) {
	out := map[SeriesKey]*Obs{}
	var dups []string
	put := func(k SeriesKey, o *Obs) {
		if _, ok := out[k]; ok {
			dups = append(dups, string(k))
		}
		out[k] = o
	}
	mm.Counters.Each(func(name, tk string, c gostatsd.Counter) {
		put(KeyOf("counter", name, c.Tags, string(c.Source)), &Obs{Kind: "counter", Name: name, Counter: c.Value, PerSecond: c.PerSecond, TS: int64(c.Timestamp), Tags: append([]string(nil), c.Tags...), Source: string(c.Source)})
	})
	mm.Timers.Each(func(name, tk string, t gostatsd.Timer) {
		tc := t
		tc.Values = append([]float64(nil), t.Values...)
		tc.Percentiles = append(gostatsd.Percentiles(nil), t.Percentiles...)
		if t.Histogram != nil {
			tc.Histogram = map[gostatsd.HistogramThreshold]int{}
			for k, v := range t.Histogram {
				tc.Histogram[k] = v
			}
		}
		tc.Tags = append(gostatsd.Tags(nil), t.Tags...)
		put(KeyOf("timer", name, t.Tags, string(t.Source)), &Obs{Kind: "timer", Name: name, Values: tc.Values, Sampled: t.SampledCount, TS: int64(t.Timestamp), Timer: tc, Tags: tc.Tags, Source: string(t.Source)})
	})
	mm.Gauges.Each(func(name, tk string, g gostatsd.Gauge) {
		put(KeyOf("gauge", name, g.Tags, string(g.Source)), &Obs{Kind: "gauge", Name: name, Gauge: g.Value, TS: int64(g.Timestamp), Tags: append([]string(nil), g.Tags...), Source: string(g.Source)})
	})
	mm.Sets.Each(func(name, tk string, s gostatsd.Set) {
		ms := make([]string, 0, len(s.Values))
		for v := range s.Values {
			ms = append(ms, v)
		}
		sort.Strings(ms)
		put(KeyOf("set", name, s.Tags, string(s.Source)), &Obs{Kind: "set", Name: name, Members: ms, TS: int64(s.Timestamp), Tags: append([]string(nil), s.Tags...), Source: string(s.Source)})
	})
	return out, dups
}

func sortedKeys[V any](m map[SeriesKey]V) []SeriesKey {
	ks := make([]SeriesKey, 0, len(m))
	for k := range m {
		ks = append(ks, k)
	}
	sort.Slice(ks, func(i, j int) bool { return ks[i] < ks[j] })
	return ks
}

func sortedFloats(v []float64) []float64 {
	c := append([]float64(nil), v...)
	sort.Float64s(c)
	return c
}

func floatsEqual(a, b []float64) bool {
	if len(a) != len(b) {
		return false
	}
	for i := range a {
		if a[i] != b[i] && !(math.IsNaN(a[i]) && math.IsNaN(b[i])) {
			return false
		}
	}
	return true
}

// approx: relative + absolute tolerance.
func approx(a, b, tol float64) bool {
	if a == b {
		return true
	}
	if math.IsNaN(a) || math.IsNaN(b) {
		return math.IsNaN(a) && math.IsNaN(b)
	}
	d := math.Abs(a - b)
	return d <= tol || d <= tol*math.Max(math.Abs(a), math.Abs(b))
}

func fmtFloats(v []float64) string {
	s := make([]string, len(v))
	for i, f := range v {
		s[i] = strconv.FormatFloat(f, 'g', -1, 64)
	}
	return "[" + strings.Join(s, " ") + "]"
}

// CanonObs renders an observation map canonically (for traces).
func CanonObs(m map[SeriesKey]*Obs) string {
	var sb strings.Builder
	for _, k := range sortedKeys(m) {
		o := m[k]
		switch o.Kind {
		case "counter":
			fmt.Fprintf(&sb, "%s=%d;", k, o.Counter)
		case "timer":
			fmt.Fprintf(&sb, "%s=%s/%g;", k, fmtFloats(sortedFloats(o.Values)), o.Sampled)
		case "gauge":
			fmt.Fprintf(&sb, "%s=%g;", k, o.Gauge)
		case "set":
			fmt.Fprintf(&sb, "%s={%s};", k, strings.Join(o.Members, " "))
		}
	}
	return sb.String()
}
