package verifsim

// C03 — no network input can crash ingestion.
// The fault is hostile or corrupted input on the wire, injected by the simulated network into a
// running system that is also carrying good traffic. Datagram side: real receiver + parsers (wired
// as the server wires them) + recording handler/statser. HTTP side: the real ingestion router.

import (
	"bytes"
	"compress/zlib"
	"context"
	"fmt"
	"math"
	"net"
	"strings"
	"sync"
	"time"

	"github.com/pierrec/lz4/v4"
	"github.com/sirupsen/logrus"
	"github.com/spf13/viper"
	"golang.org/x/time/rate"
	"google.golang.org/protobuf/proto"

	"github.com/atlassian/gostatsd"
	"github.com/atlassian/gostatsd/pb"
	"github.com/atlassian/gostatsd/pkg/stats"
	"github.com/atlassian/gostatsd/pkg/statsd"
	"github.com/atlassian/gostatsd/pkg/web"
)

func init() { register("C03", func() Property { return c03{} }) }

type c03 struct{}

func (c03) ID() string { return "C03" }

var c03Boundary = []string{"0", "1", "2", "3", "4", "5", "6", "9", "10", "255", "256", "65535", "65536",
	"2147483647", "2147483648", "2147483649", "4294967290", "4294967291", "4294967292", "4294967293", "4294967294", "4294967295", "4294967296", "4294967297", "4294967300",
	"9223372036854775806", "9223372036854775807", "9223372036854775808", "18446744073709551610", "18446744073709551614", "18446744073709551615", "18446744073709551616", "18446744073709551620",
	"99999999999999999999999", "00000000000000000000005", "-1", "", "5x", "+5"}

var c03Good = []string{"req.count:1|c", "lat:12.5|ms|@0.5|#env:prod,az:a", "users:joe|s", "temp:21.5|g|#room:1", "h.t:3|h|#gsd_histogram:1_5_10",
	"_e{5,4}:title|text", "_e{5,4}:title|text|d:1700000000|h:host1|k:agg|p:low|s:src|t:error|#t1,t2:v", "_e{6,12}:deploy|line1\\nline2|#x"}

func c03Line(e *Env) string {
	base := c03Good[e.Draw(len(c03Good))]
	switch e.Weighted("hostile-kind", []int{2, 3, 3, 2, 2, 2, 3, 2, 2}) {
	case 0:
		return base
	case 1: // byte flips
		b := []byte(base)
		for i, n := 0, 1+e.Draw(3); i < n && len(b) > 0; i++ {
			b[e.Draw(len(b))] = byte(e.Draw(256))
		}
		e.Fault("byte-flip")
		return string(b)
	case 2: // truncation
		e.Fault("truncate")
		return base[:e.Draw(len(base)+1)]
	case 3: // splice two lines
		o := c03Good[e.Draw(len(c03Good))]
		e.Fault("splice")
		return base[:e.Draw(len(base)+1)] + o[e.Draw(len(o)+1):]
	case 4: // NUL insertion
		i := e.Draw(len(base) + 1)
		e.Fault("nul-insert")
		return base[:i] + "\x00" + base[i:]
	case 5: // very long line
		e.Fault("long-line")
		n := []int{1000, 1472, 8192, 30000, 65000, 257, 300}[e.Draw(7)]
		switch e.Draw(8) {
		case 6, 7: // many tags, no two the same (a valid line)
			var b strings.Builder
			b.WriteString([]string{"a:1|c|#", "a:1|g|#", "_e{1,1}:a|b|#"}[e.Draw(3)])
			for i := 0; b.Len() < n; i++ {
				fmt.Fprintf(&b, "t%d:%d,", i, n)
			}
			return strings.TrimSuffix(b.String(), ",")
		case 4:
			return strings.Repeat("\x80", n) // nothing but UTF-8 continuation bytes
		case 5:
			return strings.Repeat("\xe2\x82", n/2) + "|c"
		case 0:
			return strings.Repeat("n", n) + ":1|c"
		case 1:
			return "a:1|c|#" + strings.Repeat("t", n)
		case 2:
			return "a:" + strings.Repeat("9", n) + "|c"
		default:
			return "a:1|c|#" + strings.Repeat("k:v,", n/4)
		}
	case 6: // event header with boundary lengths
		e.Fault("event-length-boundary")
		title := []string{"", "a", "abcde", "title"}[e.Draw(4)]
		text := []string{"", "x", "xyz", "text"}[e.Draw(4)]
		n, m := c03Boundary[e.Draw(len(c03Boundary))], c03Boundary[e.Draw(len(c03Boundary))]
		if e.Bool() {
			n = fmt.Sprint(len(title))
		}
		if e.Chance(1, 4) {
			m = fmt.Sprint(len(text))
		}
		tail := ""
		if e.Bool() {
			tail = "|d:" + c03Boundary[e.Draw(len(c03Boundary))]
		}
		sep := []string{":", "", ":"}[e.Draw(3)]
		return "_e{" + n + "," + m + "}" + sep + title + "|" + text + tail
	case 7: // almost valid shapes
		e.Fault("almost-valid")
		shapes := []string{"a:1|c|@", "a:1|c|@0", "a:1|c|@-1", "a:1|c|@nan", "a:1|c|@1e999", "a:1e999|g", "a:-inf|g", "a:0x10|c", "a:1|", "a:1||", "a:1|c|", "a:1|c||", "a:1|c|#", "a:1|c|#,",
			"a:1|c|#,,|@0.5", ":|", "a::1|c", "a:1|cc", "a:1|msx", "_e", "_e{", "_e{1", "_e{1,", "_e{1,1", "_e{1,1}", "_e{1,1}:", "_e{0,0}:", "_e{0,0}:|", "_e{1,1}:a", "_e{1,1}:a|", "_e{1,1}:a|b|", "_e{1,1}:a|b|d:", "_e{1,1}:a|b|p:", "_e{1,1}:a|b|#", "_", "__e{1,1}:a|b",
			"_sc|db.up|0|h:web1|#env:prod|m:all good", "_sc|", "_sc", "_s", "_sx|a|0", "_sc|a|9|d:1|#t",
			// a value that is only a sign, a dot or an exponent stub
			"a:-|c", "a:-|g", "a:-|ms", "a:+|c", "a:.|c", "a:-.|ms", "a:e|c", "a:1e|c", "a:1e+|g", "a:-e1|g", "a:--1|c", "a:+-1|g"}
		return shapes[e.Draw(len(shapes))]
	default: // random bytes
		e.Fault("random-bytes")
		n := 1 + e.Draw(40)
		b := make([]byte, n)
		for i := range b {
			b[i] = byte(e.Draw(256))
			if b[i] == '\n' {
				b[i] = '|'
			}
		}
		return string(b)
	}
}

func (c03) Run(e *Env) {
	e.ProbeDecl("datagram-side", "http-side", "hostile-then-canary", "max-size-datagram", "http-corrupt-compressed", "http-unknown-encoding", "http-4xx-nothing-dispatched", "http-lz4-block-checksums", "empty-datagram", "datagram-fills-the-receive-buffer", "http-event-body")
	if e.Chance(2, 3) {
		c03Datagrams(e)
	} else {
		c03HTTP(e)
	}
}

func c03Datagrams(e *Env) {
	e.Probe("datagram-side")
	nParsers := e.Range(1, 3)
	h := &RecHandler{Env: e}
	st := NewRecStatser()
	sock := NewSimSocket()
	ch := make(chan []*statsd.Datagram)
	// estimated tags, the bad-line log limiter and raw-metric logging are start-up options too
	parser := statsd.NewDatagramParser(ch, "", e.Bool(), []int{0, 2, 4}[e.Draw(3)], h, []rate.Limit{0, 1000, 0.5}[e.Draw(3)], e.Chance(1, 4), logrus.StandardLogger())
	recv := statsd.NewDatagramReceiver(ch, func() (net.PacketConn, error) { return sock, nil }, e.Range(1, 2), e.Range(1, 3))
	ctx, cancel := context.WithCancel(stats.NewContext(context.Background(), st))
	var wg sync.WaitGroup
	start := func(f func(context.Context)) {
		wg.Add(1)
		go func() { defer wg.Done(); f(ctx) }()
	}
	start(parser.RunMetricsContext)
	for i := 0; i < nParsers; i++ {
		start(parser.Run)
	}
	start(recv.Run)
	defer wg.Wait()
	defer cancel()
	e.Settle()
	total := 0.0
	read := func() float64 {
		st.NotifyFlush(ctx, time.Second)
		e.Settle()
		m, _ := st.G("parser.metrics_received{}")
		ev, _ := st.G("parser.events_received{}")
		b, _ := st.G("parser.bad_lines_seen{}")
		return m + ev + b
	}
	id := 0
	send := func(p []byte) {
		time.Sleep(time.Millisecond)
		e.Settle()
		if sock.Waiting() == 0 {
			e.Failf("C03/ingestion-wedged", "no reader is waiting for the next datagram: processing of later input does not continue")
		}
		id++
		sock.Deliver(&Dgram{ID: id, Payload: p, Addr: ClientAddr(0)})
		e.Settle()
	}
	nD := e.Range(1, 12*e.Depth())
	for i := 0; i < nD; i++ {
		var lines []string
		for j, n := 0, e.Range(1, 5); j < n; j++ {
			lines = append(lines, c03Line(e))
		}
		p := strings.Join(lines, "\n")
		if e.Bool() {
			p += "\n"
		}
		if e.Chance(1, 20) {
			p = ""
			e.Probe("empty-datagram")
		}
		if e.Chance(1, 25) {
			// exactly as large as the receive buffer (or one less), ending in the middle of a line
			tail := []string{"a:1|m", "a:1|", "a:1|c|@", "a:1|c|#", "a:", "_e{", "_e{1,1}:a|", "a:1|ms", "a:1|c|@0.", "x"}[e.Draw(10)]
			size := 65535 - e.Draw(2)
			var sb strings.Builder
			for sb.Len()+10 < size-len(tail) {
				sb.WriteString("pad.c:1|c\n")
			}
			if gap := size - len(tail) - sb.Len(); gap > 1 {
				sb.WriteString(strings.Repeat("z", gap-1) + "\n")
			} else if gap == 1 {
				sb.WriteString("\n")
			}
			p = sb.String() + tail
			e.Probe("datagram-fills-the-receive-buffer")
		}
		if len(p) > 65535 {
			p = p[:65535]
			e.Probe("max-size-datagram")
		}
		segs := 0
		if len(p) > 0 {
			segs = strings.Count(p, "\n") + 1
			if strings.HasSuffix(p, "\n") {
				segs--
			}
		}
		pr := p
		if len(pr) > 200 {
			pr = pr[:200] + "..."
		}
		e.Event("hostile %q", pr)
		send([]byte(p))
		total += float64(segs)
		if got := read(); got != total {
			e.Failf("C03/line-accounting", "after datagram %q: metrics_received + events_received + bad_lines_seen = %v, expected %v (every line is either parsed or counted as bad)", pr, got, total)
		}
		// processing continues: a canary right behind the hostile datagram is parsed and dispatched
		before := h.NMaps()
		canary := fmt.Sprintf("canary.c%d:7|c", i)
		send([]byte(canary))
		total++
		e.Probe("hostile-then-canary")
		if h.NMaps() != before+1 {
			e.Failf("C03/canary-lost", "the well-formed datagram %q sent after %q was not dispatched", canary, pr)
		}
		obs := h.MapAt(h.NMaps() - 1).Obs
		found := false
		for k, o := range obs {
			if strings.HasPrefix(string(k), "counter|canary.c") && o.Counter == 7 {
				found = true
			}
		}
		if !found || len(obs) != 1 {
			e.Failf("C03/canary-corrupted", "canary %q dispatched as %s", canary, CanonObs(obs))
		}
		if got := read(); got != total {
			e.Failf("C03/line-accounting", "after the canary: counters sum to %v, expected %v", got, total)
		}
		e.State("d=%d", i)
		e.Overlap = true
	}
}

func c03Body(e *Env) ([]byte, string, bool) {
	// returns body, content-encoding, and whether the request is entirely well formed
	mm := &pb.RawMessageV2{Counters: map[string]*pb.CounterTagV2{"c": {TagMap: map[string]*pb.RawCounterV2{"t:1": {Tags: []string{"t:1"}, Value: int64(1 + e.Draw(100))}}}}}
	switch e.Draw(7) {
	case 1: // a set without members (a forwarder never sends one; any other client may)
		mm = &pb.RawMessageV2{Sets: map[string]*pb.SetTagV2{"s": {TagMap: map[string]*pb.RawSetV2{"t:1": {Tags: []string{"t:1"}}}}}}
	case 2:
		mm = &pb.RawMessageV2{Sets: map[string]*pb.SetTagV2{"s": {TagMap: map[string]*pb.RawSetV2{"t:1": {Tags: []string{"t:1"}, Values: []string{fmt.Sprintf("m%d", e.Draw(3))}}}}}}
	case 3: // a timer without values; sampled counts of every kind
		mm = &pb.RawMessageV2{Timers: map[string]*pb.TimerTagV2{"t": {TagMap: map[string]*pb.RawTimerV2{"t:1": {Tags: []string{"t:1"}, SampleCount: []float64{0, 1, -1, math.NaN(), math.Inf(1)}[e.Draw(5)]}}}}}
	case 4:
		mm = &pb.RawMessageV2{Timers: map[string]*pb.TimerTagV2{"t": {TagMap: map[string]*pb.RawTimerV2{"t:1": {Tags: []string{"t:1"}, Values: []float64{1, math.NaN(), math.Inf(-1)}[:1+e.Draw(3)], SampleCount: float64(e.Draw(3))}}}}}
	case 5: // one series under two keys, an entry without tags, an empty name
		mm = &pb.RawMessageV2{Sets: map[string]*pb.SetTagV2{"s": {TagMap: map[string]*pb.RawSetV2{"t:1": {Tags: []string{"t:1"}}, "t:1,": {Tags: []string{"t:1"}, Values: []string{"m"}}, "": {}}}, "": {}},
			Gauges: map[string]*pb.GaugeTagV2{"g": {TagMap: map[string]*pb.RawGaugeV2{"": {Value: math.NaN()}}}, "": {TagMap: map[string]*pb.RawGaugeV2{"x": {Hostname: "h"}}}}}
	}
	raw, _ := proto.MarshalOptions{Deterministic: true}.Marshal(mm) // map fields in key order: the bytes (and what a bit flip at offset n hits) replay
	valid := true
	if e.Chance(1, 3) {
		// a well-formed event message whose enum and integer fields hold whatever the wire allows
		enums := []int32{0, 1, 2, 3, 4, 5, 100, -1, -2, math.MinInt32, math.MaxInt32}
		ev := &pb.EventV2{Title: "t", Text: "x", DateHappened: []int64{0, 1700000000, -1, math.MinInt64, math.MaxInt64}[e.Draw(5)],
			Priority: pb.EventV2_EventPriority(enums[e.Draw(len(enums))]), Type: pb.EventV2_AlertType(enums[e.Draw(len(enums))])}
		raw, _ = proto.Marshal(ev)
		e.Probe("http-event-body")
		valid = false // well formed as an event; what /v2/raw makes of it is its business
	}
	switch e.Draw(5) {
	case 0:
	case 1: // mutated protobuf
		for i, n := 0, 1+e.Draw(4); i < n && len(raw) > 0; i++ {
			raw[e.Draw(len(raw))] = byte(e.Draw(256))
		}
		valid = false
		e.Fault("protobuf-mutated")
	case 2:
		raw = raw[:e.Draw(len(raw)+1)]
		valid = false
		e.Fault("protobuf-truncated")
	case 3:
		raw = make([]byte, e.Draw(64))
		for i := range raw {
			raw[i] = byte(e.Draw(256))
		}
		valid = false
		e.Fault("random-body")
	case 4:
		raw = nil
		valid = false
	}
	if e.Chance(1, 10) {
		// bytes that are lz4 framing, hand-made: a skippable frame whose declared size is a boundary value,
		// optionally followed by a proper frame; a frame header with every flag set
		var b bytes.Buffer
		if e.Bool() {
			b.Write([]byte{byte(0x50 + e.Draw(16)), 0x2A, 0x4D, 0x18})
			sz := []uint32{0, 3, 8, 0x7FFFFFFF, 0x80000000, 0xFFFFFFF7, 0xFFFFFFF8, 0xFFFFFFF9, 0xFFFFFFFF}[e.Draw(9)]
			b.Write([]byte{byte(sz), byte(sz >> 8), byte(sz >> 16), byte(sz >> 24)})
			b.Write([]byte("xyz")[:e.Draw(4)])
		} else {
			b.Write([]byte{0x04, 0x22, 0x4D, 0x18, byte(e.Draw(256)), byte(e.Draw(256)), byte(e.Draw(256))})
			for i, n := 0, e.Draw(24); i < n; i++ {
				b.WriteByte([]byte{0, 0xff, 0x80, 1, 4}[e.Draw(5)])
			}
		}
		if e.Bool() {
			w := lz4.NewWriter(&b)
			w.Write(raw)
			w.Close()
		}
		e.Fault("lz4-hand-made-framing")
		return b.Bytes(), "lz4", false
	}
	enc := []string{"", "identity", "deflate", "lz4", "br", strings.Repeat("x", 100)}[e.Draw(6)]
	body := raw
	switch enc {
	case "deflate":
		var buf bytes.Buffer
		w := zlib.NewWriter(&buf)
		w.Write(raw)
		w.Close()
		body = buf.Bytes()
	case "lz4":
		var buf bytes.Buffer
		w := lz4.NewWriter(&buf)
		if e.Chance(1, 3) {
			// frame options a client may legitimately choose: per-block checksums, no content checksum, small blocks
			if e.Bool() {
				w.Apply(lz4.BlockChecksumOption(true))
				e.Probe("http-lz4-block-checksums")
			}
			if e.Chance(1, 3) {
				w.Apply(lz4.ChecksumOption(false))
			}
			if e.Chance(1, 3) {
				w.Apply(lz4.BlockSizeOption(lz4.Block64Kb))
			}
		}
		if e.Chance(1, 3) {
			// optional content-size field, honest or wildly wrong
			sz := []uint64{uint64(len(raw)), 0, 1 << 20, 1 << 36, 1<<63 - 1, 1 << 63, 1<<64 - 1}[e.Draw(7)]
			w.Apply(lz4.SizeOption(sz))
			if sz != uint64(len(raw)) {
				valid = false
				e.Fault("lz4-declared-size")
			}
		}
		w.Write(raw)
		w.Close()
		body = buf.Bytes()
	case "br", strings.Repeat("x", 100):
		valid = false
		e.Probe("http-unknown-encoding")
	}
	if (enc == "deflate" || enc == "lz4") && e.Chance(1, 2) {
		// compressed, then damaged on the wire
		switch e.Draw(3) {
		case 0:
			body = append([]byte(nil), body[:e.Draw(len(body)+1)]...)
		case 1:
			body = append([]byte(nil), body...)
			for i, n := 0, 1+e.Draw(3); i < n && len(body) > 0; i++ {
				body[e.Draw(len(body))] ^= byte(1 + e.Draw(255))
			}
		case 2:
			body = append(append([]byte(nil), body...), make([]byte, 1+e.Draw(16))...)
		}
		valid = false
		e.Fault("compressed-stream-damaged")
		e.Probe("http-corrupt-compressed")
	}
	return body, enc, valid
}

func c03HTTP(e *Env) {
	e.ProbeDecl("http-chunked-body", "http-long-history")
	e.Probe("http-side")
	up := &RecHandler{Env: e}
	srv, err := web.NewHttpServer(logrus.StandardLogger(), up, "in", "in", false, false, true, false, nil, nil)
	if err != nil {
		e.Failf("C03/harness", "%v", err)
	}
	fab := NewFabric()
	fab.Handle("in", srv.Router)
	// what the endpoint hands on goes where it goes in a server: through the tag stage into an
	// aggregator that is flushed now and then; nothing a request put there may bring that down
	aggr := statsd.NewMetricAggregator([]float64{90}, time.Minute, time.Minute, time.Minute, time.Minute, gostatsd.TimerSubtypes{}, 10)
	tagStage := statsd.NewTagHandlerFromViper(viper.New(), aggrSink{aggr}, gostatsd.Tags{"static:1"})
	mapsDown := 0
	downstream := func() {
		defer func() {
			if p := recover(); p != nil {
				e.Failf("C03/pipeline-panic", "what an accepted request handed on makes the aggregation pipeline panic (nothing recovers that in a server): %v", p)
			}
		}()
		for ; mapsDown < up.NMaps(); mapsDown++ {
			tagStage.DispatchMetricMap(context.Background(), up.MapAt(mapsDown).Map)
			if e.Chance(1, 4) {
				aggr.Flush(time.Second)
				aggr.Process(func(*gostatsd.MetricMap) {})
				aggr.Reset()
			}
		}
	}
	serve := func(path string, body []byte, enc string) int {
		defer downstream()
		r := &HTTPReq{Method: "POST", Host: "in", Path: path, Header: map[string][]string{"Content-Type": {"application/x-protobuf"}}, Body: body}
		if e.Chance(1, 4) {
			r.Chunked = true // a client streaming the body: no Content-Length
			e.Probe("http-chunked-body")
		}
		if enc != "" {
			r.Header.Set("Content-Encoding", enc)
		}
		resp := fab.Serve(r)
		if len(fab.Panics) > 0 {
			e.Failf("C03/http-handler-panic", "POST %s (Content-Encoding %q, %d byte body) made the handler panic: %s", path, enc, len(body), fab.Panics[0])
		}
		return resp.StatusCode
	}
	if e.Chance(1, 12) {
		// a longer history on one endpoint: many good compressed requests, as many hostile ones, then a
		// good one again - whatever the handler keeps between requests must survive the error paths
		e.Probe("http-long-history")
		cm := &pb.RawMessageV2{Gauges: map[string]*pb.GaugeTagV2{"hist": {TagMap: map[string]*pb.RawGaugeV2{"": {Value: 1}}}}}
		raw, _ := proto.Marshal(cm)
		for _, enc := range []string{"deflate", "lz4"} {
			var good bytes.Buffer
			if enc == "deflate" {
				w := zlib.NewWriter(&good)
				w.Write(raw)
				w.Close()
			} else {
				w := lz4.NewWriter(&good)
				w.Write(raw)
				w.Close()
			}
			k := e.Range(17, 24)
			answered := func(body []byte, what string, i int) int {
				done := make(chan int, 1)
				go func() {
					r := &HTTPReq{Method: "POST", Host: "in", Path: "/v2/raw", Header: map[string][]string{"Content-Encoding": {enc}}, Body: body}
					done <- fab.Serve(r).StatusCode
				}()
				e.Settle()
				select {
				case st := <-done:
					return st
				default:
					e.Failf("C03/request-never-answered", "%s request %d of a history of %d good and %d hostile %s requests is never answered: the handler is stuck", what, i, k, k, enc)
					return 0
				}
			}
			for i := 0; i < k; i++ {
				if st := answered(good.Bytes(), "good", i); st != 202 {
					e.Failf("C03/valid-request-refused", "history: good %s request %d answered %d", enc, i, st)
				}
			}
			for i := 0; i < k; i++ {
				junk := make([]byte, 1+e.Draw(40))
				for j := range junk {
					junk[j] = byte(e.Draw(256))
				}
				if st := answered(junk, "hostile", i); st < 400 {
					e.Probe("http-junk-accepted")
				}
			}
			m0 := up.NMaps()
			if st := answered(good.Bytes(), "good (after the hostile ones)", 0); st != 202 || up.NMaps() != m0+1 {
				e.Failf("C03/canary-lost", "history: a good %s request after %d hostile ones was answered %d and dispatched %d maps", enc, k, st, up.NMaps()-m0)
			}
			if len(fab.Panics) > 0 {
				e.Failf("C03/http-handler-panic", "history (%s): the handler panicked: %s", enc, fab.Panics[0])
			}
		}
		e.Overlap = true
		return
	}
	n := e.Range(1, 10*e.Depth())
	for i := 0; i < n; i++ {
		path := []string{"/v2/raw", "/v2/event"}[e.Draw(2)]
		body, enc, valid := c03Body(e)
		m0, e0 := up.NMaps(), up.NEvents()
		status := serve(path, body, enc)
		e.Event("POST %s enc=%q len=%d -> %d", path, enc, len(body), status)
		if status < 100 || status > 599 {
			e.Failf("C03/no-http-status", "POST %s (Content-Encoding %q): no HTTP status", path, enc)
		}
		dispatched := (up.NMaps() - m0) + (up.NEvents() - e0)
		if status >= 400 {
			e.Probe("http-4xx-nothing-dispatched")
			if dispatched != 0 {
				e.Failf("C03/error-status-but-dispatched", "POST %s answered %d yet dispatched %d items", path, status, dispatched)
			}
		} else if dispatched > 1 {
			e.Failf("C03/multiple-dispatch", "POST %s answered %d and dispatched %d items", path, status, dispatched)
		}
		if valid && path == "/v2/raw" && (status < 200 || status > 299) {
			e.Failf("C03/valid-request-refused", "a well-formed /v2/raw request (Content-Encoding %q) was answered %d", enc, status)
		}
		// processing continues
		cm := &pb.RawMessageV2{Gauges: map[string]*pb.GaugeTagV2{"canary": {TagMap: map[string]*pb.RawGaugeV2{"": {Value: float64(i)}}}}}
		cb, _ := proto.Marshal(cm)
		m0 = up.NMaps()
		if s := serve("/v2/raw", cb, ""); s != 202 || up.NMaps() != m0+1 {
			e.Failf("C03/canary-lost", "a well-formed request after the hostile one was answered %d and dispatched %d maps", s, up.NMaps()-m0)
		}
		e.Overlap = true
	}
	_ = gostatsd.StatserNull
}

// aggrSink is the end of the pipeline: one aggregator.
type aggrSink struct{ a statsd.Aggregator }

func (s aggrSink) DispatchMetricMap(_ context.Context, mm *gostatsd.MetricMap) { s.a.ReceiveMap(mm) }
func (s aggrSink) DispatchEvent(context.Context, *gostatsd.Event)              {}
func (s aggrSink) EstimatedTags() int                                          { return 0 }
func (s aggrSink) WaitForEvents()                                              {}
