package verifsim

// C06, direct variant: the real BackendHandler with its workers and aggregators, fed through
// DispatchMetricMap from several goroutines with their own cancellable contexts (what http ingestion
// into the standalone pipeline does: the dispatch context is the request's), a worker that can be
// stalled inside a flush so that its queue fills, and flushes through BackendHandler.Process.
// Checked: a series is reported by one shard only, always the same one, the one Split names; every
// datapoint of a dispatch that was not cancelled is reported exactly once; one of a cancelled
// dispatch at most once.

import (
	"context"
	"fmt"
	"sort"
	"sync"
	"time"

	"github.com/atlassian/gostatsd"
	"github.com/atlassian/gostatsd/pkg/statsd"
)

type c06bDP struct {
	key       SeriesKey
	bit       int64   // counters: a distinct power of two per series
	val       float64 // timers: a run-unique value
	dispatch  int
	cancelled bool
	seen      int
}

func c06Direct(e *Env) {
	e.ProbeDecl("direct-handler", "direct-dispatch-blocked-on-full-queue", "direct-dispatch-cancelled-while-blocked", "direct-two-dispatches-overlap", "direct-flush-with-stalled-worker", "direct-dispatch-after-cancelled-one")
	e.Probe("direct-handler")
	nWorkers := e.Range(2, 5)
	qsize := e.Draw(3)
	bh := statsd.NewBackendHandler(nil, 1, nWorkers, qsize, statsd.AggregatorFactoryFunc(func() statsd.Aggregator {
		return statsd.NewMetricAggregator(nil, time.Hour, time.Hour, time.Hour, time.Hour, gostatsd.TimerSubtypes{}, 0)
	}))
	ctx, cancel := context.WithCancel(context.Background())
	var wg sync.WaitGroup
	wg.Add(1)
	go func() { defer wg.Done(); bh.Run(ctx) }()
	stall := NewGate("stall")
	defer wg.Wait()
	defer stall.Open(nil)
	defer cancel()
	e.Settle()
	e.Event("direct cfg workers=%d queue=%d", nWorkers, qsize)

	names := []string{"d.a", "d.b", "d.c", "d.d", "", "d.e"}
	type ser struct {
		kind, name string
		tags       []string
		src        string
		nbits      int
	}
	var series []*ser
	for i, n := 0, e.Range(2, 6); i < n; i++ {
		s := &ser{kind: []string{"counter", "timer"}[e.Draw(2)], name: names[e.Draw(len(names))], src: []string{"", "10.4.0.1"}[e.Draw(2)]}
		if e.Bool() {
			s.tags = []string{fmt.Sprintf("t:%d", e.Draw(3))}
		}
		dup := false
		for _, o := range series {
			dup = dup || KeyOf(o.kind, o.name, o.tags, o.src) == KeyOf(s.kind, s.name, s.tags, s.src)
		}
		if !dup {
			series = append(series, s)
		}
	}
	var dps []*c06bDP
	byBit := map[string]*c06bDP{}
	shardOf := map[SeriesKey]int{}
	var mu sync.Mutex
	type flushObs struct {
		worker int
		obs    map[SeriesKey]*Obs
	}
	var pendingObs []flushObs
	stallWorker := -1 // the worker that parks inside the next flush
	var flushBusy bool

	absorb := func() {
		mu.Lock()
		obs := pendingObs
		pendingObs = nil
		mu.Unlock()
		sort.SliceStable(obs, func(i, j int) bool { return obs[i].worker < obs[j].worker })
		for _, fo := range obs {
			for _, k := range sortedKeys(fo.obs) {
				o := fo.obs[k]
				if prev, ok := shardOf[k]; ok && prev != fo.worker {
					e.Failf("C06/shard-changed", "direct: series %s was reported by shard %d before and is reported by shard %d now", k, prev, fo.worker)
				}
				shardOf[k] = fo.worker
				switch o.Kind {
				case "counter":
					for bit := int64(1); bit != 0 && bit <= o.Counter; bit <<= 1 {
						if o.Counter&bit != 0 {
							d := byBit[fmt.Sprintf("%s|b%d", k, bit)]
							if d == nil {
								e.Failf("C06/counter-over-reported", "direct: shard %d reports %s with value %d, bit %d was never sent", fo.worker, k, o.Counter, bit)
							}
							d.seen++
						}
					}
				case "timer":
					for _, v := range o.Values {
						d := byBit[fmt.Sprintf("%s|v%g", k, v)]
						if d == nil {
							e.Failf("C06/timer-values-not-received", "direct: shard %d reports %s with value %v which was never sent", fo.worker, k, v)
						}
						d.seen++
					}
				}
			}
		}
		for _, d := range dps {
			if d.seen > 1 {
				e.Failf("C06/series-twice-in-flush", "direct: a datapoint of %s (dispatch %d) was reported %d times", d.key, d.dispatch, d.seen)
			}
		}
	}
	flush := func() {
		flushBusy = true
		sw := stallWorker
		stallWorker = -1
		wg.Add(1)
		go func() {
			defer wg.Done()
			wait := bh.Process(ctx, func(workerId int, aggr statsd.Aggregator) {
				aggr.Flush(time.Second)
				aggr.Process(func(mm *gostatsd.MetricMap) {
					o, _ := Snapshot(mm)
					mu.Lock()
					pendingObs = append(pendingObs, flushObs{workerId, o})
					mu.Unlock()
				})
				if workerId == sw {
					stall.Arrive(fmt.Sprintf("worker%d", workerId), nil) // the shard stays inside its flush: its queue fills
				}
				aggr.Reset()
			})
			wait()
			mu.Lock()
			flushBusy = false
			mu.Unlock()
		}()
	}
	isFlushBusy := func() bool { mu.Lock(); defer mu.Unlock(); return flushBusy }

	type disp struct {
		n      int
		cancel context.CancelFunc
		done   bool
		dps    []*c06bDP
	}
	var disps []*disp
	nDisp, nextVal := 0, 0
	anyCancelled := false
	dispatch := func() {
		nDisp++
		mm := gostatsd.NewMetricMap(false)
		d := &disp{n: nDisp}
		var desc []string
		for i, n := 0, e.Range(1, 4); i < n; i++ {
			s := series[e.Draw(len(series))]
			k := KeyOf(s.kind, s.name, s.tags, s.src)
			dp := &c06bDP{key: k, dispatch: nDisp}
			m := &gostatsd.Metric{Name: s.name, Tags: append(gostatsd.Tags(nil), s.tags...), Source: gostatsd.Source(s.src), Rate: 1, Timestamp: gostatsd.Nanotime(nDisp)}
			if s.kind == "counter" {
				if s.nbits >= 40 {
					continue
				}
				dp.bit = int64(1) << uint(s.nbits)
				s.nbits++
				m.Type, m.Value = gostatsd.COUNTER, float64(dp.bit)
				byBit[fmt.Sprintf("%s|b%d", k, dp.bit)] = dp
			} else {
				nextVal++
				dp.val = float64(nextVal)
				m.Type, m.Value = gostatsd.TIMER, dp.val
				byBit[fmt.Sprintf("%s|v%g", k, dp.val)] = dp
			}
			mm.Receive(m)
			d.dps = append(d.dps, dp)
			dps = append(dps, dp)
			desc = append(desc, string(k))
		}
		if len(d.dps) == 0 {
			return
		}
		// what Split says about these series, for the routing clause
		for idx, part := range mm.Split(nWorkers) {
			o, _ := Snapshot(part)
			for k := range o {
				if prev, ok := shardOf[k]; ok && prev != idx {
					e.Failf("C06/server-routing-disagrees-with-split", "direct: Split(%d) puts %s into shard %d, the aggregators reported it from shard %d", nWorkers, k, idx, prev)
				}
			}
		}
		dctx, dcancel := context.WithCancel(ctx)
		d.cancel = dcancel
		disps = append(disps, d)
		if anyCancelled {
			e.Probe("direct-dispatch-after-cancelled-one")
		}
		e.Event("dispatch %d: %v", d.n, desc)
		wg.Add(1)
		go func() {
			defer wg.Done()
			bh.DispatchMetricMap(dctx, mm)
			mu.Lock()
			d.done = true
			mu.Unlock()
		}()
	}
	blocked := func() []*disp {
		mu.Lock()
		defer mu.Unlock()
		var out []*disp
		for _, d := range disps {
			if !d.done {
				out = append(out, d)
			}
		}
		return out
	}

	nSteps := e.Range(4, 30*e.Depth())
	for step := 0; step < nSteps; step++ {
		e.Settle()
		absorb()
		e.Check()
		bl := blocked()
		sp := stall.Parked()
		if len(bl) > 0 {
			e.Probe("direct-dispatch-blocked-on-full-queue")
		}
		if len(bl) > 1 {
			e.Probe("direct-two-dispatches-overlap")
			e.Overlap = true
		}
		e.State("direct blocked=%d stalled=%d flush-busy=%v", len(bl), len(sp), isFlushBusy())
		canFlush := 0
		if !isFlushBusy() {
			canFlush = 2
		}
		switch e.Weighted("c06b", []int{5, canFlush, 3 * len(sp), 2 * len(bl)}) {
		case 0:
			dispatch()
		case 1:
			if e.Chance(1, 2) {
				stallWorker = e.Draw(nWorkers)
				e.Probe("direct-flush-with-stalled-worker")
				e.Fault("shard-stall")
			}
			e.Event("flush (stalling worker %d)", stallWorker)
			flush()
		case 2:
			p := sp[e.Choose("stalled", len(sp))]
			e.Event("release %s", p.Key)
			stall.Release(p, nil)
		case 3:
			d := bl[e.Choose("blocked", len(bl))]
			e.Event("cancel dispatch %d", d.n)
			e.Probe("direct-dispatch-cancelled-while-blocked")
			e.Fault("dispatch-context-cancelled")
			e.Overlap = true
			anyCancelled = true
			for _, dp := range d.dps {
				dp.cancelled = true
			}
			d.cancel()
		}
	}
	// settle: stalls released, dispatches complete, two more flushes
	for round := 0; round < 3; round++ {
		for i := 0; ; i++ {
			e.Settle()
			absorb()
			for _, p := range stall.Parked() {
				stall.Release(p, nil)
				e.Settle()
			}
			if len(blocked()) == 0 && !isFlushBusy() {
				break
			}
			if i > 200 {
				e.Failf("C06/direct-wedged", "direct: %d dispatches and flush-busy=%v do not complete although no worker is stalled", len(blocked()), isFlushBusy())
			}
			time.Sleep(10 * time.Millisecond)
		}
		if round < 2 {
			flush()
		}
	}
	absorb()
	for _, d := range dps {
		if d.seen == 0 && !d.cancelled {
			e.Failf("C06/series-lost", "direct: a datapoint of %s (dispatch %d, not cancelled) was never reported by any shard", d.key, d.dispatch)
		}
	}
	for _, d := range disps {
		d.cancel()
	}
	e.Note["direct-dispatches"] = nDisp
}
