package verifsim

// C11 — cloud enrichment forwards every item exactly once, correctly tagged.
// World W2: the real statsd.CloudHandler (Run + RunMetrics) between harness dispatcher goroutines,
// a stub CachedInstances whose Peek content, IpSink reads and InfoSource writes are scheduler
// actions, a gated recording downstream handler and a recording statser.

import (
	"context"
	"fmt"
	"sort"
	"strings"
	"sync"
	"time"

	"github.com/atlassian/gostatsd"
	"github.com/atlassian/gostatsd/internal/verifhook"
	"github.com/atlassian/gostatsd/pkg/statsd"
)

func init() { register("C11", func() Property { return c11{} }) }

type c11 struct{}

func (c11) ID() string { return "C11" }

type peekEntry struct {
	inst *gostatsd.Instance
	hit  bool
}

type peekRecord struct {
	src gostatsd.Source
	ans peekEntry
}

type stubCache struct {
	mu      sync.Mutex
	peekLog []peekRecord // every Peek and what it answered, in call order
	table   map[gostatsd.Source]peekEntry
	sink    chan gostatsd.Source
	info    chan gostatsd.InstanceInfo
	peeks   int
}

func (c *stubCache) Peek(s gostatsd.Source) (*gostatsd.Instance, bool) {
	c.mu.Lock()
	defer c.mu.Unlock()
	c.peeks++
	p := c.table[s]
	c.peekLog = append(c.peekLog, peekRecord{s, p})
	return p.inst, p.hit
}
func (c *stubCache) IpSink() chan<- gostatsd.Source           { return c.sink }
func (c *stubCache) InfoSource() <-chan gostatsd.InstanceInfo { return c.info }
func (c *stubCache) EstimatedTags() int                       { return 2 }
func (c *stubCache) set(s gostatsd.Source, p peekEntry)       { c.mu.Lock(); c.table[s] = p; c.mu.Unlock() }
func (c *stubCache) get(s gostatsd.Source) peekEntry {
	c.mu.Lock()
	defer c.mu.Unlock()
	return c.table[s]
}

var c11Instances = []*gostatsd.Instance{
	{ID: "i-aaa", Tags: gostatsd.Tags{"inst:a", "az:x"}},
	{ID: "i-bbb", Tags: gostatsd.Tags{"inst:b"}},
	{ID: "i-notags", Tags: nil},
	{ID: "i-aaa", Tags: gostatsd.Tags{"inst:a", "az:x"}}, // two addresses of one instance
}

type c11Item struct {
	id      int
	isEvent bool
	kind    string
	name    string
	tags    []string
	source  string
	value   float64
	member  string
	title   string
}

type c11Op struct {
	mm     *gostatsd.MetricMap
	ev     *gostatsd.Event
	items  []*c11Item
	toPark []*c11Item // items that miss the cache: handed to the stage only when the dispatch call gets that far
}

func (c11) Run(e *Env) {
	e.ProbeDecl("parked-metrics", "parked-events", "both-parked-for-one-source", "lookup-success", "lookup-failed", "lookup-zero-tag-instance", "hit-with-instance", "negative-hit", "empty-source",
		"emit-while-parked", "backlog-of-sources", "downstream-held", "wait-for-events-while-parked", "same-source-again-after-completion", "handover-after-cache-changed-or-lookup-completed")
	if e.Chance(1, 5) {
		c11Integrated(e) // the real instance cache and a scripted provider instead of the stub cache
		return
	}
	cache := &stubCache{table: map[gostatsd.Source]peekEntry{}, sink: make(chan gostatsd.Source), info: make(chan gostatsd.InstanceInfo)}
	down := &RecHandler{Env: e}
	gated := e.Chance(1, 3)
	if gated {
		down.MapGate = NewGate("down-map")
		down.EvGate = NewGate("down-ev")
	}
	st := NewRecStatser()
	ch := statsd.NewCloudHandler(cache, down)
	// a third of the runs arm the H1 yield sites between the cache Peek and the hand-over of the
	// cache-missing part to the stage's loop: the cache content and the lookups may change in between
	yg := &yieldGate{gate: NewGate("yield"), anyObj: true, sites: map[string]bool{}}
	if e.Chance(1, 3) {
		yg.sites["cloudhandler.metrics.before-handover"] = true
		yg.sites["cloudhandler.event.before-handover"] = true
		verifhook.SetYield(yg.fn)
		defer verifhook.SetYield(nil)
		defer yg.gate.Open(nil)
	}
	ctx, cancel := context.WithCancel(context.Background())
	var wg sync.WaitGroup
	wg.Add(2)
	go func() { defer wg.Done(); ch.Run(ctx) }()
	go func() { defer wg.Done(); ch.RunMetrics(ctx, st) }()
	nDisp := e.Range(1, 3)
	work := make([]chan *c11Op, nDisp)
	busy := make([]bool, nDisp)
	running := make([]*c11Op, nDisp)
	var bmu sync.Mutex
	for i := range work {
		work[i] = make(chan *c11Op)
		wg.Add(1)
		go func(i int) {
			defer wg.Done()
			for op := range work[i] {
				if op.mm != nil {
					ch.DispatchMetricMap(ctx, op.mm)
				} else {
					ch.DispatchEvent(ctx, op.ev)
				}
				bmu.Lock()
				busy[i] = false
				bmu.Unlock()
			}
		}(i)
	}
	defer wg.Wait()
	defer func() {
		for _, w := range work {
			close(w)
		}
	}()
	defer cancel()
	if gated {
		defer down.EvGate.Open(nil)
		defer down.MapGate.Open(nil)
	}
	e.Settle()

	nSources := e.Range(1, 4)
	manyHosts := e.Chance(1, 12)
	sources := make([]string, nSources)
	if manyHosts {
		sources = make([]string, 4+e.Range(60, 70)) // the first four take part in the ordinary workload
		nSources = 4
	}
	for i := range sources {
		sources[i] = fmt.Sprintf("10.9.0.%d", i+1)
	}
	e.Event("cfg dispatchers=%d sources=%d gated=%v", nDisp, nSources, gated)

	// model
	type parked struct {
		metrics []*c11Item
		events  []*c11Item
	}
	park := map[string]*parked{}
	outstanding := map[string]bool{} // written to IpSink, not yet answered
	needLookup := map[string]bool{}  // parked, lookup neither outstanding nor accepted yet
	completedOnce := map[string]bool{}
	want := Model{}                   // every item's final identity (filled when the item is released)
	wantEvents := map[string]string{} // title -> expected rendering
	seqBits := map[string]int{}
	var waitCalls []*struct {
		mustHave []string // titles of events accepted before the call
		done     bool
		checked  bool
	}
	nextID := 0

	finalise := func(it *c11Item, inst *gostatsd.Instance) {
		tags := append([]string(nil), it.tags...)
		src := it.source
		if inst != nil {
			tags = append(tags, inst.Tags...)
			src = string(inst.ID)
		}
		if it.isEvent {
			wantEvents[it.title] = fmt.Sprintf("tags=%q source=%q", tags, src)
			return
		}
		want.AddRaw(KeyOf(it.kind, it.name, tags, src), it.kind, it.value, 1, it.member, int64(it.id))
	}

	mapsSeen, evsSeen := 0, 0
	got := Model{}
	gotEvents := map[string]string{}
	absorb := func() {
		for ; mapsSeen < down.NMaps(); mapsSeen++ {
			r := down.MapAt(mapsSeen)
			if len(r.Dups) > 0 {
				e.Failf("C11/dup-in-map", "series twice within one forwarded map: %v", r.Dups)
			}
			for _, k := range sortedKeys(r.Obs) {
				o := r.Obs[k]
				a := got[k]
				if a == nil {
					a = &Agg{Kind: o.Kind, Members: map[string]struct{}{}, GaugeTS: -1}
					got[k] = a
				}
				switch o.Kind {
				case "counter":
					if a.Counter&o.Counter != 0 {
						e.Failf("C11/datapoint-forwarded-twice", "counter %s: bits %b arrive again (already have %b)", k, o.Counter, a.Counter)
					}
					a.Counter += o.Counter
				case "timer":
					a.Values = append(a.Values, o.Values...)
					a.Sampled += o.Sampled
				case "set":
					for _, m := range o.Members {
						if _, dup := a.Members[m]; dup {
							e.Failf("C11/datapoint-forwarded-twice", "set %s: member %s arrives again", k, m)
						}
						a.Members[m] = struct{}{}
					}
				case "gauge":
					if o.TS > a.GaugeTS {
						a.GaugeTS, a.Gauge = o.TS, o.Gauge
					}
				}
			}
			e.Event("down map %s", CanonObs(r.Obs))
		}
		for ; evsSeen < down.NEvents(); evsSeen++ {
			r := down.EventAt(evsSeen)
			if _, dup := gotEvents[r.Copy.Title]; dup {
				e.Failf("C11/event-forwarded-twice", "event %q forwarded twice", r.Copy.Title)
			}
			gotEvents[r.Copy.Title] = fmt.Sprintf("tags=%q source=%q", []string(r.Copy.Tags), r.Copy.Source)
			e.Event("down event %s %s", r.Copy.Title, gotEvents[r.Copy.Title])
		}
	}

	// got must never exceed what has been released; when nothing is held anywhere it must equal it
	compare := func(exact bool, where string) {
		for _, k := range sortedKeys(got) {
			g := got[k]
			w := want[k]
			if w == nil {
				e.Failf("C11/unexpected-series", "%s: series %s reached the next stage but no released item has that identity (wrong tags/source, or forwarded before its lookup completed); released: %v", where, k, sortedKeys(want))
			}
			switch g.Kind {
			case "counter":
				if g.Counter&^w.Counter != 0 {
					e.Failf("C11/forwarded-before-lookup", "%s: counter %s carries bits %b, released bits %b", where, k, g.Counter, w.Counter)
				}
			case "timer":
				if !multisetLE(g.Values, w.Values) {
					e.Failf("C11/forwarded-before-lookup", "%s: timer %s carries %s, released %s", where, k, fmtFloats(sortedFloats(g.Values)), fmtFloats(sortedFloats(w.Values)))
				}
			case "set":
				for m := range g.Members {
					if _, ok := w.Members[m]; !ok {
						e.Failf("C11/forwarded-before-lookup", "%s: set %s carries member %s which is not released", where, k, m)
					}
				}
			}
		}
		for _, t := range sortedStrKeys(gotEvents) {
			w, ok := wantEvents[t]
			if !ok {
				e.Failf("C11/event-forwarded-before-lookup", "%s: event %q reached the next stage before its lookup completed", where, t)
			}
			if w != gotEvents[t] {
				e.Failf("C11/event-enrichment", "%s: event %q forwarded with %s, expected %s", where, t, gotEvents[t], w)
			}
		}
		if !exact {
			return
		}
		for _, k := range sortedKeys(want) {
			w := want[k]
			g := got[k]
			if g == nil {
				e.Failf("C11/item-not-forwarded", "%s: series %s was released (source known/empty, or lookup completed) but has not reached the next stage", where, k)
			}
			switch w.Kind {
			case "counter":
				if g.Counter != w.Counter {
					e.Failf("C11/item-not-forwarded", "%s: counter %s has bits %b, released bits %b", where, k, g.Counter, w.Counter)
				}
			case "timer":
				if !floatsEqual(sortedFloats(g.Values), sortedFloats(w.Values)) {
					e.Failf("C11/item-not-forwarded", "%s: timer %s has %s, released %s", where, k, fmtFloats(sortedFloats(g.Values)), fmtFloats(sortedFloats(w.Values)))
				}
			case "set":
				if len(g.Members) != len(w.Members) {
					e.Failf("C11/item-not-forwarded", "%s: set %s has %v, released %v", where, k, keysOf(g.Members), keysOf(w.Members))
				}
			case "gauge":
				if g.Gauge != w.Gauge {
					e.Failf("C11/gauge-value", "%s: gauge %s = %v, newest released datapoint says %v", where, k, g.Gauge, w.Gauge)
				}
			}
		}
		for _, t := range sortedStrKeys(wantEvents) {
			if _, ok := gotEvents[t]; !ok {
				e.Failf("C11/event-not-forwarded", "%s: event %q was released but has not reached the next stage", where, t)
			}
		}
	}

	anyBusy := func() bool {
		bmu.Lock()
		defer bmu.Unlock()
		for _, b := range busy {
			if b {
				return true
			}
		}
		return false
	}
	heldDown := func() int {
		if !gated {
			return 0
		}
		return down.MapGate.Len() + down.EvGate.Len()
	}
	parkedCounts := func() (mh, eh, ei int) {
		for _, p := range park {
			if len(p.metrics) > 0 {
				mh++
			}
			if len(p.events) > 0 {
				eh++
				ei += len(p.events)
			}
		}
		return
	}

	applyParks := func() {
		// a dispatch call that has returned has handed its cache-missing items to the stage
		for d := 0; d < nDisp; d++ {
			bmu.Lock()
			op := running[d]
			if op != nil && !busy[d] {
				running[d] = nil
			} else {
				op = nil
			}
			bmu.Unlock()
			if op == nil {
				continue
			}
			for _, it := range op.toPark {
				p := park[it.source]
				if p == nil {
					p = &parked{}
					park[it.source] = p
				}
				if completedOnce[it.source] {
					e.Probe("same-source-again-after-completion")
				}
				if it.isEvent {
					p.events = append(p.events, it)
					e.Probe("parked-events")
				} else {
					p.metrics = append(p.metrics, it)
					e.Probe("parked-metrics")
				}
				if len(p.events) > 0 && len(p.metrics) > 0 {
					e.Probe("both-parked-for-one-source")
				}
				if !outstanding[it.source] {
					needLookup[it.source] = true
				}
			}
		}
		if len(needLookup) > 1 {
			e.Probe("backlog-of-sources")
		}
	}
	quiesce := func() {
		e.Settle()
		applyParks()
		absorb()
		compare(heldDown() == 0 && !anyBusy(), "at quiescence")
		for _, wc := range waitCalls {
			if wc.done && !wc.checked {
				wc.checked = true
				for _, t := range wc.mustHave {
					if _, ok := gotEvents[t]; !ok {
						e.Failf("C11/wait-for-events-early", "WaitForEvents returned although event %q, accepted before the call, has not been handed on", t)
					}
				}
			}
		}
		e.Check()
	}

	forceSrc := "" // set by the burst prelude: an event from exactly this source
	genOp := func() *c11Op {
		op := &c11Op{}
		mkItem := func(src string) *c11Item {
			nextID++
			it := &c11Item{id: nextID, source: src}
			return it
		}
		pickSrc := func() string {
			if forceSrc != "" {
				return forceSrc
			}
			if e.Chance(1, 8) {
				e.Probe("empty-source")
				return ""
			}
			return sources[e.Draw(nSources)]
		}
		if forceSrc != "" || e.Chance(1, 3) {
			it := mkItem(pickSrc())
			it.isEvent = true
			it.title = fmt.Sprintf("ev%d", it.id)
			if e.Bool() {
				it.tags = []string{"evtag:1"}
			}
			op.ev = &gostatsd.Event{Title: it.title, Text: "t", Source: gostatsd.Source(it.source), Tags: append(gostatsd.Tags(nil), it.tags...)}
			op.items = []*c11Item{it}
			return op
		}
		op.mm = gostatsd.NewMetricMap(false)
		for i, n := 0, e.Range(1, 4); i < n; i++ {
			it := mkItem(pickSrc())
			it.kind = []string{"counter", "timer", "set", "gauge"}[e.Draw(4)]
			it.name = []string{"m.one", "m.two"}[e.Draw(2)]
			if e.Bool() {
				it.tags = []string{"t:1"}
			}
			m := &gostatsd.Metric{Name: it.name, Tags: append(gostatsd.Tags(nil), it.tags...), Source: gostatsd.Source(it.source), Rate: 1, Timestamp: gostatsd.Nanotime(it.id)}
			sk := it.kind + it.name + strings.Join(it.tags, ",") // not per source: enrichment may map two addresses to one instance
			if it.kind == "counter" && seqBits[sk] >= 50 {
				it.kind = "timer"
			}
			switch it.kind {
			case "counter":
				m.Type = gostatsd.COUNTER
				it.value = float64(int64(1) << uint(seqBits[sk]%50))
				seqBits[sk]++
				m.Value = it.value
			case "timer":
				m.Type = gostatsd.TIMER
				it.value = float64(it.id)
				m.Value = it.value
			case "set":
				m.Type = gostatsd.SET
				it.member = fmt.Sprintf("mem%d", it.id)
				m.StringValue = it.member
			case "gauge":
				m.Type = gostatsd.GAUGE
				it.value = float64(it.id)
				m.Value = it.value
			}
			op.mm.Receive(m)
			op.items = append(op.items, it)
		}
		return op
	}

	startOp := func(d int) {
		op := genOp()
		for _, it := range op.items {
			if it.source == "" {
				finalise(it, nil)
				continue
			}
			pe := cache.get(gostatsd.Source(it.source))
			if pe.hit {
				if pe.inst != nil {
					e.Probe("hit-with-instance")
				} else {
					e.Probe("negative-hit")
				}
				finalise(it, pe.inst)
				continue
			}
			op.toPark = append(op.toPark, it)
		}
		bmu.Lock()
		busy[d] = true
		running[d] = op
		bmu.Unlock()
		if op.ev != nil {
			e.Event("op event %s from %q on d%d", op.ev.Title, op.ev.Source, d)
		} else {
			obs, _ := Snapshot(op.mm)
			e.Event("op metrics %s on d%d", CanonObs(obs), d)
		}
		work[d] <- op
	}
	if manyHosts {
		// a burst of hosts never seen before, one event each, before any lookup is answered
		e.Probe("burst-of-unknown-hosts")
		for _, src := range sources[4:] {
			quiesce()
			bmu.Lock()
			d := -1
			for i := 0; i < nDisp; i++ {
				if !busy[i] {
					d = i
					break
				}
			}
			bmu.Unlock()
			if d < 0 {
				break
			}
			forceSrc = src
			startOp(d)
			forceSrc = ""
		}
	}
	nSteps := e.Range(3, 40*e.Depth())
	for step := 0; step < nSteps; step++ {
		quiesce()
		mh, eh, ei := parkedCounts()
		e.State("park=%d/%d/%d out=%d need=%d held=%d", mh, eh, ei, len(outstanding), len(needLookup), heldDown())
		var idle []int
		bmu.Lock()
		for i, b := range busy {
			if !b {
				idle = append(idle, i)
			}
		}
		bmu.Unlock()
		outs := sortedStrKeys2(outstanding)
		var mapP, evP []*Parked
		if gated {
			mapP, evP = down.MapGate.Parked(), down.EvGate.Parked()
		}
		yP := yg.gate.Parked()
		w := []int{6 * minInt(1, len(idle)), 2, 3 * minInt(1, len(needLookup)), 4 * len(outs), 2, 3 * (len(mapP) + len(evP)), 1, 3 * len(yP)}
		switch e.Weighted("c11", w) {
		case 7: // a dispatcher parked between Peek and hand-over proceeds
			p := yP[e.Choose("yield", len(yP))]
			e.Probe("handover-after-cache-changed-or-lookup-completed")
			e.Fault("dispatcher-preempted-before-handover")
			e.Overlap = true
			e.Event("release %s", p.Key)
			yg.gate.Release(p, nil)
		case 0: // new op on an idle dispatcher, with the cache content of this instant
			d := idle[e.Choose("dispatcher", len(idle))]
			startOp(d)
		case 1: // cache content changes
			s := sources[e.Draw(nSources)]
			switch e.Draw(3) {
			case 0:
				cache.set(gostatsd.Source(s), peekEntry{})
			case 1:
				cache.set(gostatsd.Source(s), peekEntry{hit: true})
			case 2:
				cache.set(gostatsd.Source(s), peekEntry{hit: true, inst: c11Instances[e.Draw(len(c11Instances))]})
			}
			e.Event("cache %s -> %+v", s, cache.get(gostatsd.Source(s)).hit)
		case 2: // the cache accepts the pending sources from IpSink
			// (all that are offered, one after the other: which of several pending sources the stage
			// offers first follows a Go map walk, so accepting only the first would not replay)
			var acc []string
			for {
				e.Settle()
				select {
				case s := <-cache.sink:
					src := string(s)
					if outstanding[src] {
						e.Failf("C11/second-lookup-outstanding", "source %s written to IpSink while an earlier lookup for it is still unanswered", src)
					}
					if !needLookup[src] {
						e.Failf("C11/lookup-without-items", "source %s written to IpSink but nothing is waiting for it", src)
					}
					delete(needLookup, src)
					outstanding[src] = true
					acc = append(acc, src)
					continue
				default:
				}
				break
			}
			if len(needLookup) > 0 {
				e.Failf("C11/lookup-not-offered", "sources %v have items waiting and no lookup outstanding, but nothing (more) is offered on IpSink", sortedStrKeys2(needLookup))
			}
			sort.Strings(acc)
			e.Event("sink accepts %v", acc)
		case 3: // an outstanding lookup completes
			src := outs[e.Choose("complete", len(outs))]
			var inst *gostatsd.Instance
			if e.Chance(2, 3) {
				inst = c11Instances[e.Draw(len(c11Instances))]
				e.Probe("lookup-success")
				if len(inst.Tags) == 0 {
					e.Probe("lookup-zero-tag-instance")
				}
			} else {
				e.Probe("lookup-failed")
				e.Fault("lookup-failure")
			}
			delete(outstanding, src)
			completedOnce[src] = true
			if p := park[src]; p != nil {
				for _, it := range p.metrics {
					finalise(it, inst)
				}
				for _, it := range p.events {
					finalise(it, inst)
				}
				delete(park, src)
			}
			if e.Bool() { // the cache usually knows the answer afterwards
				cache.set(gostatsd.Source(src), peekEntry{hit: true, inst: inst})
			}
			e.Event("lookup %s -> %v", src, inst != nil)
			cache.info <- gostatsd.InstanceInfo{IP: gostatsd.Source(src), Instance: inst}
		case 4: // stats emission
			if mh+eh > 0 {
				e.Probe("emit-while-parked")
			}
			st.NotifyFlush(ctx, time.Second)
			e.Settle()
			chk := func(name string, wantV int) {
				g, ok := st.G(name)
				if !ok || g != float64(wantV) {
					e.Failf("C11/gauge:"+strings.SplitN(name, "{", 2)[0]+"{"+strings.SplitN(name, "{", 2)[1], "%s = %v (present=%v), true number %d (parked: %d metric hosts, %d event hosts, %d events)", name, g, ok, wantV, mh, eh, ei)
				}
			}
			chk("cloudprovider.hosts_queued{type:metric}", mh)
			chk("cloudprovider.hosts_queued{type:event}", eh)
			chk("cloudprovider.items_queued{type:event}", ei)
			e.Event("emit ok %d/%d/%d", mh, eh, ei)
		case 5: // release a held downstream call
			all := append(append([]*Parked(nil), mapP...), evP...)
			p := all[e.Choose("release-down", len(all))]
			e.Probe("downstream-held")
			e.Fault("downstream-stall")
			e.Overlap = true
			if p.Gate == "down-map" {
				down.MapGate.Release(p, nil)
			} else {
				down.EvGate.Release(p, nil)
			}
			e.Event("release %s %s", p.Gate, p.Key)
		case 6: // WaitForEvents
			wc := &struct {
				mustHave []string
				done     bool
				checked  bool
			}{}
			// events accepted so far = every event item whose dispatch has returned; parked ones are the interesting ones
			for _, p := range park {
				for _, it := range p.events {
					wc.mustHave = append(wc.mustHave, it.title)
				}
			}
			sort.Strings(wc.mustHave)
			if anyBusy() {
				wc.mustHave = nil // a dispatch is still in progress: acceptance is not settled, check nothing
			}
			if len(wc.mustHave) > 0 {
				e.Probe("wait-for-events-while-parked")
			}
			waitCalls = append(waitCalls, wc)
			wg.Add(1)
			go func() { defer wg.Done(); ch.WaitForEvents(); wc.done = true }()
			e.Event("WaitForEvents called with %d parked", len(wc.mustHave))
		}
	}

	// settle: no new work; release everything; every lookup is accepted and answered
	for i := 0; ; i++ {
		quiesce()
		if ps := yg.gate.Parked(); len(ps) > 0 {
			yg.gate.Release(ps[0], nil)
			continue
		}
		if gated && heldDown() > 0 {
			for _, p := range down.MapGate.Parked() {
				down.MapGate.Release(p, nil)
			}
			for _, p := range down.EvGate.Parked() {
				down.EvGate.Release(p, nil)
			}
			continue
		}
		if len(needLookup) > 0 {
			select {
			case s := <-cache.sink:
				src := string(s)
				if outstanding[src] || !needLookup[src] {
					e.Failf("C11/second-lookup-outstanding", "settle: unexpected source %s on IpSink", src)
				}
				delete(needLookup, src)
				outstanding[src] = true
			default:
				e.Failf("C11/lookup-not-offered", "settle: sources %v have items waiting but nothing is offered on IpSink", sortedStrKeys2(needLookup))
			}
			continue
		}
		if len(outstanding) > 0 {
			src := sortedStrKeys2(outstanding)[0]
			delete(outstanding, src)
			if p := park[src]; p != nil {
				for _, it := range p.metrics {
					finalise(it, nil)
				}
				for _, it := range p.events {
					finalise(it, nil)
				}
				delete(park, src)
			}
			cache.info <- gostatsd.InstanceInfo{IP: gostatsd.Source(src)}
			continue
		}
		break
	}
	quiesce()
	select {
	case s := <-cache.sink:
		e.Failf("C11/lookup-without-items", "settle: source %s offered on IpSink although nothing is waiting", s)
	default:
	}
	compare(true, "end of run")
	for _, wc := range waitCalls {
		if !wc.done {
			e.Failf("C11/wait-for-events-stuck", "WaitForEvents has not returned although every event has been handed on")
		}
	}
	st.NotifyFlush(ctx, time.Second)
	e.Settle()
	for _, n := range []string{"cloudprovider.hosts_queued{type:metric}", "cloudprovider.hosts_queued{type:event}", "cloudprovider.items_queued{type:event}"} {
		if g, ok := st.G(n); !ok || g != 0 {
			e.Failf("C11/gauge:"+n, "%s = %v at the end of the run with nothing waiting", n, g)
		}
	}
	e.Note["items"] = nextID
}

func minInt(a, b int) int {
	if a < b {
		return a
	}
	return b
}

func sortedStrKeys(m map[string]string) []string {
	ks := make([]string, 0, len(m))
	for k := range m {
		ks = append(ks, k)
	}
	sort.Strings(ks)
	return ks
}

func sortedStrKeys2(m map[string]bool) []string {
	ks := make([]string, 0, len(m))
	for k := range m {
		ks = append(ks, k)
	}
	sort.Strings(ks)
	return ks
}
