// Package verifsim is the deterministic simulation harness for atlassian/gostatsd.
//
// kernel.go: PRNG, choice tape, per-run environment (trace, schedule hash, fault and probe counters,
// violation reporting), gates (intercepted synchronisation points) and the bubble runner.
package verifsim

import (
	"context"
	"crypto/sha256"
	"encoding/binary"
	"encoding/hex"
	"encoding/json"
	"fmt"
	"hash"
	"io"
	"math/rand"
	"os"
	"regexp"
	"sort"
	"strings"
	"sync"
	"testing"
	"testing/synctest"
	"time"

	"github.com/sirupsen/logrus"
)

// ---------------------------------------------------------------------------------------------
// PRNG

// SplitMix64 is the only source of randomness of the simulator.
type SplitMix64 struct{ s uint64 }

func (r *SplitMix64) Next() uint64 {
	r.s += 0x9E3779B97F4A7C15
	z := r.s
	z = (z ^ (z >> 30)) * 0xBF58476D1CE4E5B9
	z = (z ^ (z >> 27)) * 0x94D049BB133111EB
	return z ^ (z >> 31)
}

// MixSeed derives the seed of run i of property p from the batch seed.
func MixSeed(seed uint64, prop string, run uint64) uint64 {
	h := sha256.New()
	var b [8]byte
	binary.LittleEndian.PutUint64(b[:], seed)
	h.Write(b[:])
	io.WriteString(h, prop)
	binary.LittleEndian.PutUint64(b[:], run)
	h.Write(b[:])
	return binary.LittleEndian.Uint64(h.Sum(nil)[:8])
}

// ---------------------------------------------------------------------------------------------
// Choice tape

// Tape is the list of integers that decides everything in one run: generated configuration,
// workload, faults and schedule. In generation mode it is filled from the PRNG; in replay mode it is
// read back (reduced modulo the number of options; exhausted tape yields 0, the most boring option).
type Tape struct {
	rng    *SplitMix64
	replay []uint32
	Rec    []uint32
	gen    bool
	pos    int
	sink   io.Writer // optional: every drawn value is appended here at once (crash recording)
}

func NewGenTape(seed uint64) *Tape { return &Tape{rng: &SplitMix64{s: seed}, gen: true} }
func NewReplayTape(vals []uint32) *Tape {
	return &Tape{replay: append([]uint32(nil), vals...)}
}

// Draw returns a value in [0,n). n <= 1 consumes nothing.
func (t *Tape) Draw(n int) int {
	if n <= 1 {
		return 0
	}
	var v uint32
	if t.gen {
		v = uint32(t.rng.Next() % uint64(n))
	} else if t.pos < len(t.replay) {
		v = t.replay[t.pos] % uint32(n)
	}
	t.pos++
	t.Rec = append(t.Rec, v)
	if t.sink != nil {
		fmt.Fprintf(t.sink, "%d\n", v)
	}
	return int(v)
}

// ---------------------------------------------------------------------------------------------
// Violations

// Violation is what an oracle reports. Class is the stable identity used while shrinking and for
// known-findings matching ("<property>/<clause>[:<detail>]"); Msg is for humans.
type Violation struct {
	Class string `json:"class"`
	Msg   string `json:"msg"`
}

type abortRun struct{}

// ---------------------------------------------------------------------------------------------
// Env: per-run environment

type Env struct {
	depth int // see Depth
	T     *testing.T
	Prop  string
	Tape  *Tape

	mu        sync.Mutex
	trace     hash.Hash
	traceKeep []string // first lines of the trace, kept for replay files and samples
	sched     hash.Hash
	nChoices  int
	Faults    map[string]int
	Probes    map[string]int
	states    map[string]struct{}
	viol      *Violation
	Seq       uint64
	start     time.Time
	Overlap   bool // scenario had >= 2 overlapping actors / in-flight operations
	Note      map[string]any
	simSec    float64
	unstable  string            // set when the run met a source of order the simulator does not control (DESIGN 8.1)
	KnownHits map[string]string // known-finding classes met in this run (class -> first message)
	RunIndex  uint64            // index of the run within the batch (systematic enumeration of short fault scripts)
}

const traceKeepMax = 400

func newEnv(t *testing.T, prop string, tape *Tape) *Env {
	return &Env{T: t, Prop: prop, Tape: tape, trace: sha256.New(), sched: sha256.New(),
		Faults: map[string]int{}, Probes: map[string]int{}, states: map[string]struct{}{},
		start: time.Now(), Note: map[string]any{}}
}

// Event appends one canonical line to the run's trace (hashed; first lines kept).
func (e *Env) Event(format string, args ...any) {
	s := fmt.Sprintf(format, args...)
	e.mu.Lock()
	e.Seq++
	io.WriteString(e.trace, s)
	e.trace.Write([]byte{'\n'})
	if len(e.traceKeep) < traceKeepMax {
		e.traceKeep = append(e.traceKeep, s)
	}
	e.mu.Unlock()
}

// NextSeq returns a fresh global event sequence number (for invoke/return stamping).
func (e *Env) NextSeq() uint64 {
	e.mu.Lock()
	defer e.mu.Unlock()
	e.Seq++
	return e.Seq
}

// Draw draws generated data (configuration, workload content) from the tape.
func (e *Env) Draw(n int) int { return e.Tape.Draw(n) }
func (e *Env) Bool() bool     { return e.Tape.Draw(2) == 1 }

// Chance is true with probability num/den; 0 on the tape means false.
func (e *Env) Chance(num, den int) bool { return e.Tape.Draw(den) >= den-num }

// Range draws from [lo,hi].
func (e *Env) Range(lo, hi int) int { return lo + e.Tape.Draw(hi-lo+1) }

// Choose is a scheduling / fault choice point among n enabled actions. It consumes tape only when
// n >= 2 and is folded into the schedule hash.
func (e *Env) Choose(kind string, n int) int {
	if n <= 1 {
		return 0
	}
	c := e.Tape.Draw(n)
	e.mu.Lock()
	fmt.Fprintf(e.sched, "%s/%d/%d;", kind, n, c)
	e.nChoices++
	e.mu.Unlock()
	return c
}

// Weighted picks an index with the given integer weights (a choice point). Index 0 should be the
// most boring action.
func (e *Env) Weighted(kind string, weights []int) int {
	sum := 0
	nz := 0
	for _, w := range weights {
		sum += w
		if w > 0 {
			nz++
		}
	}
	if sum == 0 {
		return -1
	}
	if nz == 1 {
		for i, w := range weights {
			if w > 0 {
				return i
			}
		}
	}
	v := e.Tape.Draw(sum)
	idx := 0
	for i, w := range weights {
		if v < w {
			idx = i
			break
		}
		v -= w
	}
	e.mu.Lock()
	fmt.Fprintf(e.sched, "%s/w%d/%d;", kind, len(weights), idx)
	e.nChoices++
	e.mu.Unlock()
	return idx
}

func (e *Env) Fault(kind string) { e.mu.Lock(); e.Faults[kind]++; e.mu.Unlock() }
func (e *Env) Probe(name string) { e.mu.Lock(); e.Probes[name]++; e.mu.Unlock() }
func (e *Env) ProbeDecl(names ...string) {
	e.mu.Lock()
	for _, n := range names {
		if _, ok := e.Probes[n]; !ok {
			e.Probes[n] = 0
		}
	}
	e.mu.Unlock()
}

// Depth is the run's history-length factor: 1 for nine runs in ten, 3 for a deep run (decided by the
// tape on first use, so it replays and shrinks like every other choice). Properties multiply the
// upper bound of their main step loop with it: most runs stay short and diverse, some go deep.
func (e *Env) Depth() int {
	if e.depth == 0 {
		e.depth = 1
		if e.Chance(1, 10) {
			e.depth = 3
			e.Probe("deep-run")
		}
	}
	return e.depth
}

// State records an abstract state tuple seen at quiescence (counted distinct per batch).
func (e *Env) State(format string, args ...any) {
	s := fmt.Sprintf(format, args...)
	h := sha256.Sum256([]byte(s))
	e.mu.Lock()
	e.states[string(h[:8])] = struct{}{}
	e.mu.Unlock()
}

// Unstable marks the run as having met nondeterminism the simulator neither controls nor can
// canonicalise (e.g. Go map iteration order inside gostatsd deciding how sources are grouped into
// provider calls). Verdicts stay sound; the trace hash of such runs is not compared across
// executions and a failure is confirmed by class only.
func (e *Env) Unstable(reason string) {
	e.mu.Lock()
	if e.unstable == "" {
		e.unstable = reason
	}
	e.mu.Unlock()
}

// Report records a violation (first one wins). Safe from any goroutine.
func (e *Env) Report(class, format string, args ...any) {
	e.mu.Lock()
	if e.viol == nil {
		e.viol = &Violation{Class: class, Msg: fmt.Sprintf(format, args...)}
	}
	e.mu.Unlock()
}

func (e *Env) Violated() bool { e.mu.Lock(); defer e.mu.Unlock(); return e.viol != nil }

// known findings (status "known" in /verif/known_findings.json, path in VERIF_KNOWN_FILE): violation
// classes matching one of them are recorded and, where the oracle can safely go on, do not abort the run
var (
	knownOnce sync.Once
	knownRes  []*regexp.Regexp
)

func knownClass(class string) bool {
	knownOnce.Do(func() {
		b, err := os.ReadFile(os.Getenv("VERIF_KNOWN_FILE"))
		if err != nil {
			return
		}
		var f struct {
			Findings []struct {
				Status string `json:"status"`
				Key    string `json:"key"`
			} `json:"findings"`
		}
		if json.Unmarshal(b, &f) != nil {
			return
		}
		for _, k := range f.Findings {
			if k.Status == "known" {
				if re, err := regexp.Compile(k.Key); err == nil {
					knownRes = append(knownRes, re)
				}
			}
		}
	})
	for _, re := range knownRes {
		if re.MatchString(class) {
			return true
		}
	}
	return false
}

// FailfSoft is Failf for oracle clauses after which checking can safely continue: a violation whose
// class is a listed known finding is recorded (reported as KNOWN-FINDING by the driver) and the run goes on,
// so that the rest of the run is still judged; anything else aborts like Failf.
func (e *Env) FailfSoft(class, format string, args ...any) {
	if knownClass(class) {
		e.mu.Lock()
		if e.KnownHits == nil {
			e.KnownHits = map[string]string{}
		}
		if _, ok := e.KnownHits[class]; !ok {
			e.KnownHits[class] = fmt.Sprintf(format, args...)
		}
		e.mu.Unlock()
		return
	}
	e.Failf(class, format, args...)
}

// Failf reports a violation and aborts the run. Driver goroutine only.
func (e *Env) Failf(class, format string, args ...any) {
	e.Report(class, format, args...)
	panic(abortRun{})
}

// Check aborts the run if some goroutine has reported a violation. Driver goroutine only.
func (e *Env) Check() {
	if e.Violated() {
		panic(abortRun{})
	}
}

// Settle waits until every other goroutine in the bubble is durably blocked.
func (e *Env) Settle() { synctest.Wait() }

// Advance moves the fake clock by d (the driver is the only sleeper) and settles.
func (e *Env) Advance(d time.Duration) {
	if d > 0 {
		time.Sleep(d)
	}
	synctest.Wait()
}

func (e *Env) SimElapsed() time.Duration { return time.Since(e.start) }

// ---------------------------------------------------------------------------------------------
// Gates: intercepted synchronisation points

// Parked is one goroutine waiting at a gate.
type Parked struct {
	Gate string
	Key  string // stable content key; never a pointer or goroutine id
	Arg  any
	ch   chan any
	seq  uint64
}

// Gate parks goroutines of the system under test until the scheduler releases them with an outcome.
type Gate struct {
	Name   string
	mu     sync.Mutex
	parked []*Parked
	open   bool // closed world: Arrive returns closedOutcome at once
	closed any
	n      uint64
}

func NewGate(name string) *Gate { return &Gate{Name: name} }

// Arrive registers the calling goroutine and blocks (durably, on a bubble-local channel) until the
// scheduler releases it. Returns the outcome chosen by the scheduler.
func (g *Gate) Arrive(key string, arg any) any {
	g.mu.Lock()
	if g.open {
		o := g.closed
		g.mu.Unlock()
		return o
	}
	g.n++
	p := &Parked{Gate: g.Name, Key: key, Arg: arg, ch: make(chan any, 1), seq: g.n}
	g.parked = append(g.parked, p)
	g.mu.Unlock()
	return <-p.ch
}

// ArriveCtx is Arrive for callers that must honour a context (HTTP round trips): it returns
// (nil, ctx.Err()) if the context ends while parked.
func (g *Gate) ArriveCtx(ctx context.Context, key string, arg any) (any, error) {
	g.mu.Lock()
	if g.open {
		o := g.closed
		g.mu.Unlock()
		return o, nil
	}
	g.n++
	p := &Parked{Gate: g.Name, Key: key, Arg: arg, ch: make(chan any, 1), seq: g.n}
	g.parked = append(g.parked, p)
	g.mu.Unlock()
	select {
	case o := <-p.ch:
		return o, nil
	case <-ctx.Done():
		g.mu.Lock()
		for i, q := range g.parked {
			if q == p {
				g.parked = append(g.parked[:i], g.parked[i+1:]...)
				break
			}
		}
		g.mu.Unlock()
		select {
		case o := <-p.ch: // released concurrently
			return o, nil
		default:
		}
		return nil, ctx.Err()
	}
}

// Parked returns the goroutines currently waiting, ordered by key (ties by arrival, which is only
// deterministic when the scenario makes arrivals causally ordered).
func (g *Gate) Parked() []*Parked {
	g.mu.Lock()
	out := append([]*Parked(nil), g.parked...)
	g.mu.Unlock()
	sort.SliceStable(out, func(i, j int) bool {
		if out[i].Key != out[j].Key {
			return out[i].Key < out[j].Key
		}
		return out[i].seq < out[j].seq
	})
	return out
}

func (g *Gate) Len() int { g.mu.Lock(); defer g.mu.Unlock(); return len(g.parked) }

// Release lets p proceed with the outcome.
func (g *Gate) Release(p *Parked, outcome any) {
	g.mu.Lock()
	for i, q := range g.parked {
		if q == p {
			g.parked = append(g.parked[:i], g.parked[i+1:]...)
			break
		}
	}
	g.mu.Unlock()
	p.ch <- outcome
}

// Open releases everything parked with the outcome and lets later arrivals pass with it at once
// (used at the end of a run so that the system can shut down).
func (g *Gate) Open(outcome any) {
	g.mu.Lock()
	g.open = true
	g.closed = outcome
	ps := g.parked
	g.parked = nil
	g.mu.Unlock()
	for _, p := range ps {
		p.ch <- outcome
	}
}

// ---------------------------------------------------------------------------------------------
// Bubble runner

// Property is one simulated check: it builds its world, drives it from env's tape and reports
// violations through env. Run is called on the bubble's root goroutine and must leave no goroutine
// behind (cancel contexts / open gates in defers).
type Property interface {
	ID() string
	Run(e *Env)
}

// RunResult is what one run produced.
type RunResult struct {
	Violation  *Violation
	TraceHash  string
	SchedHash  string
	Trace      []string
	Tape       []uint32
	Choices    int
	Faults     map[string]int
	Probes     map[string]int
	States     []string
	SimSeconds float64
	Overlap    bool
	Note       map[string]any
	Unstable   string
	KnownHits  map[string]string
}

var logSetup sync.Once

// RunOne executes one scenario of p, decided entirely by tape, inside a fresh synctest bubble.
func RunOne(t *testing.T, p Property, tape *Tape, rngSeed uint64, runIdx uint64) *RunResult {
	logSetup.Do(func() {
		logrus.SetOutput(io.Discard)
		logrus.SetLevel(logrus.PanicLevel)
	})
	// cenkalti/backoff and k8s wait.Jitter draw from the global math/rand source.
	rand.Seed(int64(rngSeed)) //nolint:staticcheck // needs GODEBUG=randseednop=0
	res := &RunResult{}
	var env *Env
	func() {
		defer func() {
			if os.Getenv("VERIF_NORECOVER") != "" {
				return // debugging: let the runtime print every goroutine
			}
			if r := recover(); r != nil {
				s := fmt.Sprint(r)
				if env != nil && env.Violated() {
					return // bubble teardown noise after a reported violation
				}
				cls := "bubble-panic"
				if strings.Contains(s, "deadlock") {
					cls = "deadlock"
				}
				if env == nil {
					env = newEnv(t, p.ID(), tape)
				}
				env.Report(p.ID()+"/"+cls, "%s", firstLines(s, 40))
			}
		}()
		synctest.Test(t, func(t *testing.T) {
			env = newEnv(t, p.ID(), tape)
			env.RunIndex = runIdx
			defer func() {
				env.simSec = time.Since(env.start).Seconds()
				if r := recover(); r != nil {
					if _, ok := r.(abortRun); ok {
						return
					}
					env.Report(p.ID()+"/driver-panic", "%v", r)
				}
			}()
			p.Run(env)
		})
	}()
	res.Violation = env.viol
	res.TraceHash = hex.EncodeToString(env.trace.Sum(nil)[:12])
	res.SchedHash = hex.EncodeToString(env.sched.Sum(nil)[:12])
	res.Trace = env.traceKeep
	res.Tape = tape.Rec
	res.Choices = env.nChoices
	res.Faults = env.Faults
	res.Probes = env.Probes
	for s := range env.states {
		res.States = append(res.States, hex.EncodeToString([]byte(s)))
	}
	res.SimSeconds = env.simSec
	res.Overlap = env.Overlap
	res.Note = env.Note
	res.Unstable = env.unstable
	res.KnownHits = env.KnownHits
	if res.Unstable != "" {
		res.TraceHash = "unstable:" + res.Unstable
	}
	return res
}

func firstLines(s string, n int) string {
	lines := strings.Split(s, "\n")
	if len(lines) > n {
		lines = lines[:n]
	}
	return strings.Join(lines, "\n")
}
