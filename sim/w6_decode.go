package verifsim

// w6_decode.go — independent decoders of what each backend puts on the wire.
//
// They are written from the public protocol descriptions (Graphite plaintext protocol and tag syntax,
// the statsd / dogstatsd line format, Datadog's v1 series API, InfluxDB line protocol, New Relic's
// infrastructure SDK v2 JSON / Insights event API / Metric API, OTLP/HTTP protobuf, CloudWatch
// PutMetricData) plus BACKENDS.md / README.md for the naming conventions of gostatsd. None of
// gostatsd's own encoders or data types are used: the OTLP decoder uses the generated message types of
// go.opentelemetry.io/proto, the CloudWatch one the AWS SDK's input type.
//
// A payload that is not syntactically valid for its protocol yields an error.

import (
	"bytes"
	"compress/gzip"
	"compress/zlib"
	"encoding/json"
	"errors"
	"fmt"
	"io"
	"math"
	"regexp"
	"sort"
	"strconv"
	"strings"
	"unicode/utf8"

	awscw "github.com/aws/aws-sdk-go-v2/service/cloudwatch"
	otlpcollector "go.opentelemetry.io/proto/otlp/collector/metrics/v1"
	otlpcommon "go.opentelemetry.io/proto/otlp/common/v1"
	otlpmetrics "go.opentelemetry.io/proto/otlp/metrics/v1"
	"google.golang.org/protobuf/proto"
	"google.golang.org/protobuf/reflect/protoreflect"
)

// WirePoint is one value as a receiver of the protocol would see it.
type WirePoint struct {
	Name  string   // metric name as on the wire (including any prefix/suffix the backend adds)
	Tags  []string // "k:v" or "k", sorted: graphite ";k=v", influx tag set, datadog tags, statsd #tags, newrelic / otlp attributes, cloudwatch dimensions
	Host  string   // host / source field where the protocol has one (datadog "host", statsd event "h:")
	Value float64
	Type  string // protocol-level type if any ("gauge","rate","count","c","ms","summary","histogram", a cloudwatch unit, ...)
	TS    int64  // timestamp as on the wire, in the protocol's unit (s for graphite/datadog/influx precision=s/cloudwatch, ns for otlp)

	// Additions to the work order's struct:

	// Field names the sub-value where one wire record carries several values: the influx field key, the
	// attribute of a newrelic infra/insights event ("value","per_second","min",...), "count"/"sum"/"min"/
	// "max" of a newrelic summary or an otlp histogram, "bucket_le_<bound>" of an otlp histogram.
	// "" where the record carries exactly one value.
	Field string
	// Str is the value where the protocol carries a string instead of a number (statsd set member, influx
	// string field, event text).
	Str string
	// Rate is the statsd sample rate ("|@0.1") if present, else 0.
	Rate float64
}

func (p WirePoint) String() string {
	s := p.Name
	if p.Field != "" {
		s += "/" + p.Field
	}
	if len(p.Tags) > 0 {
		s += "{" + strings.Join(p.Tags, ",") + "}"
	}
	if p.Host != "" {
		s += "@" + p.Host
	}
	s += "=" + strconv.FormatFloat(p.Value, 'g', -1, 64)
	if p.Str != "" {
		s += fmt.Sprintf("(%q)", p.Str)
	}
	if p.Type != "" {
		s += " " + p.Type
	}
	return s
}

// ---------------------------------------------------------------------------------------------
// entry points

// DecodeHTTP decodes one request body of an HTTP backend (kind is one of the HTTP BackendKinds). It
// undoes the Content-Encoding (identity, gzip, deflate = zlib stream as HTTP defines it) first.
func DecodeHTTP(kind string, r *HTTPReq) ([]WirePoint, error) {
	if r == nil {
		return nil, errors.New("decode: nil request")
	}
	if r.Method != "" && r.Method != "POST" {
		return nil, fmt.Errorf("decode %s: method %q, every ingestion API here takes POST", kind, r.Method)
	}
	body, err := contentDecode(r.Header.Get("Content-Encoding"), r.Body)
	if err != nil {
		return nil, fmt.Errorf("decode %s: %v", kind, err)
	}
	var pts []WirePoint
	switch kind {
	case "datadog":
		pts, err = decodeDatadogSeries(body)
	case "influxdb-v1", "influxdb-v2":
		pts, err = decodeInfluxLines(body)
	case "newrelic-infra":
		pts, err = decodeNewRelicInfra(body)
	case "newrelic-insights":
		pts, err = decodeNewRelicInsights(body)
	case "newrelic-metrics":
		pts, err = decodeNewRelicMetrics(body)
	case "otlp-gauge", "otlp-histogram":
		pts, err = decodeOTLPMetrics(body)
	default:
		return nil, fmt.Errorf("decode: %q is not an HTTP backend kind", kind)
	}
	if err != nil {
		return nil, fmt.Errorf("decode %s: %v", kind, err)
	}
	return pts, nil
}

// DecodeConn decodes bytes written by a socket backend: Graphite plaintext lines for the graphite-*
// kinds (and for "stdout", which prints the same line shape), statsd lines for the statsdaemon-* kinds.
// b must consist of whole lines (for statsdaemon-udp: one datagram, or several concatenated).
func DecodeConn(kind string, b []byte) ([]WirePoint, error) {
	var pts []WirePoint
	var err error
	switch kind {
	case "graphite-legacy", "graphite-basic", "graphite-tags", "stdout":
		pts, err = decodeGraphiteLines(b)
	case "statsdaemon-udp", "statsdaemon-tcp":
		pts, err = decodeStatsdLines(b)
	default:
		return nil, fmt.Errorf("decode: %q is not a socket backend kind", kind)
	}
	if err != nil {
		return nil, fmt.Errorf("decode %s: %v", kind, err)
	}
	return pts, nil
}

func contentDecode(enc string, body []byte) ([]byte, error) {
	switch strings.ToLower(strings.TrimSpace(enc)) {
	case "", "identity":
		return body, nil
	case "gzip":
		zr, err := gzip.NewReader(bytes.NewReader(body))
		if err != nil {
			return nil, fmt.Errorf("Content-Encoding gzip: %v", err)
		}
		out, err := io.ReadAll(zr)
		if err != nil {
			return nil, fmt.Errorf("Content-Encoding gzip: %v", err)
		}
		return out, nil
	case "deflate": // RFC 9110: the "zlib" format (RFC 1950) around a deflate stream
		zr, err := zlib.NewReader(bytes.NewReader(body))
		if err != nil {
			return nil, fmt.Errorf("Content-Encoding deflate: %v", err)
		}
		out, err := io.ReadAll(zr)
		if err != nil {
			return nil, fmt.Errorf("Content-Encoding deflate: %v", err)
		}
		return out, nil
	}
	return nil, fmt.Errorf("unsupported Content-Encoding %q", enc)
}

func sortedTags(t []string) []string {
	if len(t) == 0 {
		return nil
	}
	sort.Strings(t)
	return t
}

// jsonStrict unmarshals exactly one JSON document (no trailing second document) keeping numbers exact.
func jsonStrict(body []byte, into any) error {
	dec := json.NewDecoder(bytes.NewReader(body))
	dec.UseNumber()
	if err := dec.Decode(into); err != nil {
		return fmt.Errorf("JSON: %v", err)
	}
	if _, err := dec.Token(); err != io.EOF {
		return errors.New("JSON: data after the end of the document")
	}
	return nil
}

func jsonFloat(v any) (float64, bool) {
	n, ok := v.(json.Number)
	if !ok {
		return 0, false
	}
	f, err := n.Float64()
	if err != nil {
		return 0, false
	}
	return f, true
}

// ---------------------------------------------------------------------------------------------
// Graphite plaintext protocol: "<metric path> <value> <timestamp>\n"; since Graphite 1.1 the path may
// carry tags: "name;tag1=value1;tag2=value2".

func decodeGraphiteLines(b []byte) ([]WirePoint, error) {
	if len(b) == 0 {
		return nil, nil
	}
	if b[len(b)-1] != '\n' {
		return nil, errors.New("graphite: last line is not terminated by a newline")
	}
	lines := strings.Split(string(b[:len(b)-1]), "\n")
	out := make([]WirePoint, 0, len(lines))
	for i, ln := range lines {
		f := strings.Split(ln, " ")
		if len(f) != 3 || f[0] == "" || f[1] == "" || f[2] == "" {
			return nil, fmt.Errorf("graphite: line %d %q does not have the 3 fields <path> <value> <timestamp>", i+1, ln)
		}
		val, err := strconv.ParseFloat(f[1], 64)
		if err != nil {
			return nil, fmt.Errorf("graphite: line %d %q: value: %v", i+1, ln, err)
		}
		tsf, err := strconv.ParseFloat(f[2], 64)
		if err != nil || math.IsNaN(tsf) || math.IsInf(tsf, 0) {
			return nil, fmt.Errorf("graphite: line %d %q: timestamp is not a number", i+1, ln)
		}
		parts := strings.Split(f[0], ";")
		p := WirePoint{Name: parts[0], Value: val, TS: int64(tsf)}
		if p.Name == "" {
			return nil, fmt.Errorf("graphite: line %d %q: empty metric name", i+1, ln)
		}
		if strings.ContainsAny(f[0], "\t\r") || !utf8.ValidString(f[0]) {
			return nil, fmt.Errorf("graphite: line %d %q: control characters / invalid UTF-8 in the path", i+1, ln)
		}
		seen := map[string]bool{}
		for _, t := range parts[1:] {
			k, v, ok := strings.Cut(t, "=")
			// tag names: at least one character, none of ";!^="; values: at least one character, no ";", no leading "~"
			if !ok || k == "" || v == "" || strings.ContainsAny(k, "!^") || strings.HasPrefix(v, "~") {
				return nil, fmt.Errorf("graphite: line %d %q: malformed tag %q", i+1, ln, t)
			}
			if seen[k] {
				return nil, fmt.Errorf("graphite: line %d %q: tag %q given twice", i+1, ln, k)
			}
			seen[k] = true
			p.Tags = append(p.Tags, k+":"+v)
		}
		p.Tags = sortedTags(p.Tags)
		out = append(out, p)
	}
	return out, nil
}

// ---------------------------------------------------------------------------------------------
// statsd / dogstatsd datagram format:
//   <name>:<value>|<type>[|@<sample rate>][|#<tag>,<tag>...]
//   _e{<title bytes>,<text bytes>}:<title>|<text>[|d:<ts>][|h:<host>][|k:<key>][|s:<source type>][|p:<priority>][|t:<alert type>][|#tags]
// Lines are separated by "\n"; empty lines are ignored (as statsd servers do).

func decodeStatsdLines(b []byte) ([]WirePoint, error) {
	var out []WirePoint
	for i, ln := range strings.Split(string(b), "\n") {
		if ln == "" {
			continue
		}
		var p WirePoint
		var err error
		if strings.HasPrefix(ln, "_e{") {
			p, err = decodeStatsdEvent(ln)
		} else {
			p, err = decodeStatsdMetric(ln)
		}
		if err != nil {
			return nil, fmt.Errorf("statsd: line %d %q: %v", i+1, ln, err)
		}
		out = append(out, p)
	}
	return out, nil
}

func statsdTags(s string) ([]string, error) {
	if s == "" {
		return nil, errors.New("empty tag section")
	}
	tags := strings.Split(s, ",")
	for _, t := range tags {
		if t == "" {
			return nil, errors.New("empty tag")
		}
	}
	return sortedTags(tags), nil
}

func decodeStatsdMetric(ln string) (WirePoint, error) {
	var p WirePoint
	colon := strings.IndexByte(ln, ':')
	if colon <= 0 {
		return p, errors.New("no <name>: prefix")
	}
	p.Name = ln[:colon]
	if strings.ContainsAny(p.Name, "|#@") {
		return p, errors.New("reserved character in the name")
	}
	sec := strings.Split(ln[colon+1:], "|")
	if len(sec) < 2 {
		return p, errors.New("no |<type> section")
	}
	p.Type = sec[1]
	switch p.Type {
	case "c", "g", "ms", "h", "d":
		v, err := strconv.ParseFloat(sec[0], 64)
		if err != nil {
			return p, fmt.Errorf("value: %v", err)
		}
		p.Value = v
	case "s":
		if sec[0] == "" {
			return p, errors.New("empty set member")
		}
		p.Str = sec[0]
	default:
		return p, fmt.Errorf("unknown metric type %q", p.Type)
	}
	var haveRate, haveTags bool
	for _, s := range sec[2:] {
		switch {
		case strings.HasPrefix(s, "@") && !haveRate:
			r, err := strconv.ParseFloat(s[1:], 64)
			if err != nil || !(r > 0 && r <= 1) {
				return p, fmt.Errorf("sample rate %q is not in (0,1]", s)
			}
			p.Rate, haveRate = r, true
		case strings.HasPrefix(s, "#") && !haveTags:
			t, err := statsdTags(s[1:])
			if err != nil {
				return p, err
			}
			p.Tags, haveTags = t, true
		default:
			return p, fmt.Errorf("unexpected section %q", s)
		}
	}
	return p, nil
}

var statsdEventHdr = regexp.MustCompile(`^_e\{(\d+),(\d+)\}:`)

func decodeStatsdEvent(ln string) (WirePoint, error) {
	p := WirePoint{Type: "_e"}
	m := statsdEventHdr.FindStringSubmatch(ln)
	if m == nil {
		return p, errors.New("malformed event header")
	}
	tl, _ := strconv.Atoi(m[1])
	xl, _ := strconv.Atoi(m[2])
	rest := ln[len(m[0]):]
	if len(rest) < tl+1+xl || rest[tl] != '|' {
		return p, errors.New("event title/text lengths do not match the header")
	}
	p.Name = rest[:tl]
	p.Str = strings.ReplaceAll(rest[tl+1:tl+1+xl], `\n`, "\n")
	rest = rest[tl+1+xl:]
	if rest == "" {
		return p, nil
	}
	if rest[0] != '|' {
		return p, errors.New("event text is longer than the header says")
	}
	for _, s := range strings.Split(rest[1:], "|") {
		switch {
		case strings.HasPrefix(s, "d:"):
			ts, err := strconv.ParseInt(s[2:], 10, 64)
			if err != nil {
				return p, fmt.Errorf("event timestamp: %v", err)
			}
			p.TS = ts
		case strings.HasPrefix(s, "h:"):
			p.Host = s[2:]
		case strings.HasPrefix(s, "k:"), strings.HasPrefix(s, "s:"), strings.HasPrefix(s, "p:"), strings.HasPrefix(s, "t:"):
			// aggregation key, source type, priority, alert type: no place in a WirePoint
		case strings.HasPrefix(s, "#"):
			t, err := statsdTags(s[1:])
			if err != nil {
				return p, err
			}
			p.Tags = t
		default:
			return p, fmt.Errorf("unexpected event section %q", s)
		}
	}
	return p, nil
}

// ---------------------------------------------------------------------------------------------
// Datadog: POST /api/v1/series
//   {"series":[{"metric":"name","points":[[<ts>,<value>],...],"type":"gauge|rate|count","interval":N,"host":"h","tags":["k:v",...]}]}

func decodeDatadogSeries(body []byte) ([]WirePoint, error) {
	var doc struct {
		Series *[]struct {
			Metric   *string     `json:"metric"`
			Points   [][]any     `json:"points"` // numbers arrive as json.Number (a quoted "2" must not pass for a number)
			Type     string      `json:"type"`
			Interval json.Number `json:"interval"`
			Host     string      `json:"host"`
			Tags     []string    `json:"tags"`
		} `json:"series"`
	}
	if err := jsonStrict(body, &doc); err != nil {
		return nil, err
	}
	if doc.Series == nil {
		return nil, errors.New(`datadog: no "series" member`)
	}
	var out []WirePoint
	for i, s := range *doc.Series {
		if s.Metric == nil || *s.Metric == "" {
			return nil, fmt.Errorf(`datadog: series %d has no "metric"`, i)
		}
		switch s.Type {
		case "", "gauge", "rate", "count":
		default:
			return nil, fmt.Errorf("datadog: series %d (%s): unknown type %q", i, *s.Metric, s.Type)
		}
		if len(s.Points) == 0 {
			return nil, fmt.Errorf("datadog: series %d (%s) has no points", i, *s.Metric)
		}
		for _, pt := range s.Points {
			if len(pt) != 2 {
				return nil, fmt.Errorf("datadog: series %d (%s): a point must be [timestamp, value]", i, *s.Metric)
			}
			ts, ok1 := jsonFloat(pt[0])
			val, ok2 := jsonFloat(pt[1])
			if !ok1 || !ok2 {
				return nil, fmt.Errorf("datadog: series %d (%s): non-numeric point", i, *s.Metric)
			}
			out = append(out, WirePoint{Name: *s.Metric, Tags: sortedTags(append([]string(nil), s.Tags...)), Host: s.Host, Value: val, Type: s.Type, TS: int64(ts)})
		}
	}
	return out, nil
}

// ---------------------------------------------------------------------------------------------
// InfluxDB line protocol:
//   <measurement>[,<tag key>=<tag value>...] <field key>=<field value>[,<field key>=<field value>...] [<timestamp>]
// Escapes: in a measurement "\," and "\ "; in tag keys, tag values and field keys "\,", "\=" and "\ ";
// in a string field value (double quoted) "\"" and "\\". A backslash before any other character stands
// for itself. Field values: float (1, 1.5, -1e3), integer (12i), unsigned (12u), boolean
// (t,T,true,True,TRUE,f,F,false,False,FALSE), string ("..."). Lines starting with '#' are comments.
// One WirePoint per field.

type influxScanner struct {
	s   string
	pos int
}

// token reads up to (not including) the first unescaped character of stops; esc lists the characters a
// backslash escapes here.
func (sc *influxScanner) token(stops, esc string) string {
	var sb strings.Builder
	for sc.pos < len(sc.s) {
		c := sc.s[sc.pos]
		if c == '\\' && sc.pos+1 < len(sc.s) && strings.IndexByte(esc, sc.s[sc.pos+1]) >= 0 {
			sb.WriteByte(sc.s[sc.pos+1])
			sc.pos += 2
			continue
		}
		if strings.IndexByte(stops, c) >= 0 {
			break
		}
		sb.WriteByte(c)
		sc.pos++
	}
	return sb.String()
}

func (sc *influxScanner) peek() byte {
	if sc.pos < len(sc.s) {
		return sc.s[sc.pos]
	}
	return 0
}

var influxInt = regexp.MustCompile(`^-?\d+i$`)
var influxUint = regexp.MustCompile(`^\d+u$`)
var influxFloat = regexp.MustCompile(`^[-+]?(\d+\.?\d*|\.\d+)([eE][-+]?\d+)?$`)

func decodeInfluxLine(ln string) ([]WirePoint, error) {
	sc := &influxScanner{s: ln}
	name := sc.token(", ", ", ")
	if name == "" {
		return nil, errors.New("missing measurement")
	}
	var tags []string
	seen := map[string]bool{}
	for sc.peek() == ',' {
		sc.pos++
		k := sc.token("=, ", ",= ")
		if sc.peek() != '=' {
			return nil, fmt.Errorf("tag %q without a value", k)
		}
		sc.pos++
		v := sc.token(", =", ",= ")
		if sc.peek() == '=' {
			return nil, fmt.Errorf("unescaped '=' in the value of tag %q", k)
		}
		if k == "" || v == "" {
			return nil, errors.New("empty tag key or tag value")
		}
		if seen[k] {
			return nil, fmt.Errorf("tag key %q given twice", k)
		}
		seen[k] = true
		tags = append(tags, k+":"+v)
	}
	if sc.peek() != ' ' {
		return nil, errors.New("missing field set")
	}
	for sc.peek() == ' ' {
		sc.pos++
	}
	if sc.pos >= len(sc.s) {
		return nil, errors.New("missing field set")
	}
	tags = sortedTags(tags)
	var pts []WirePoint
	for {
		k := sc.token("=, ", ",= ")
		if k == "" || sc.peek() != '=' {
			return nil, fmt.Errorf("malformed field set near %q: expected <field key>=<value>", sc.s[sc.pos:])
		}
		sc.pos++
		p := WirePoint{Name: name, Field: k, Tags: tags}
		if sc.peek() == '"' {
			sc.pos++
			var sb strings.Builder
			closed := false
			for sc.pos < len(sc.s) {
				c := sc.s[sc.pos]
				if c == '\\' && sc.pos+1 < len(sc.s) && (sc.s[sc.pos+1] == '"' || sc.s[sc.pos+1] == '\\') {
					sb.WriteByte(sc.s[sc.pos+1])
					sc.pos += 2
					continue
				}
				sc.pos++
				if c == '"' {
					closed = true
					break
				}
				sb.WriteByte(c)
			}
			if !closed {
				return nil, fmt.Errorf("unterminated string value of field %q", k)
			}
			p.Type, p.Str = "string", sb.String()
		} else {
			raw := sc.token(", ", "")
			switch {
			case influxInt.MatchString(raw):
				n, err := strconv.ParseInt(raw[:len(raw)-1], 10, 64)
				if err != nil {
					return nil, fmt.Errorf("field %q: %v", k, err)
				}
				p.Type, p.Value = "integer", float64(n)
			case influxUint.MatchString(raw):
				n, err := strconv.ParseUint(raw[:len(raw)-1], 10, 64)
				if err != nil {
					return nil, fmt.Errorf("field %q: %v", k, err)
				}
				p.Type, p.Value = "unsigned", float64(n)
			case influxFloat.MatchString(raw):
				f, err := strconv.ParseFloat(raw, 64)
				if err != nil {
					return nil, fmt.Errorf("field %q: %v", k, err)
				}
				p.Type, p.Value = "float", f
			case raw == "t" || raw == "T" || raw == "true" || raw == "True" || raw == "TRUE":
				p.Type, p.Value = "boolean", 1
			case raw == "f" || raw == "F" || raw == "false" || raw == "False" || raw == "FALSE":
				p.Type, p.Value = "boolean", 0
			default:
				// includes NaN and +Inf/-Inf, which line protocol cannot express
				return nil, fmt.Errorf("field %q: %q is not a line protocol value", k, raw)
			}
		}
		pts = append(pts, p)
		if sc.peek() == ',' {
			sc.pos++
			continue
		}
		break
	}
	if sc.pos < len(sc.s) {
		if sc.peek() != ' ' {
			return nil, fmt.Errorf("garbage after the field set: %q", sc.s[sc.pos:])
		}
		rest := strings.TrimLeft(sc.s[sc.pos:], " ")
		if rest != "" {
			ts, err := strconv.ParseInt(rest, 10, 64)
			if err != nil {
				return nil, fmt.Errorf("timestamp %q is not an integer (two series glued together?)", rest)
			}
			for i := range pts {
				pts[i].TS = ts
			}
		}
	}
	return pts, nil
}

func decodeInfluxLines(body []byte) ([]WirePoint, error) {
	if !utf8.Valid(body) {
		return nil, errors.New("influx: body is not valid UTF-8")
	}
	var out []WirePoint
	for i, ln := range strings.Split(string(body), "\n") {
		ln = strings.TrimSuffix(ln, "\r")
		if ln == "" || strings.HasPrefix(ln, "#") {
			continue
		}
		pts, err := decodeInfluxLine(ln)
		if err != nil {
			return nil, fmt.Errorf("influx: line %d %q: %v", i+1, ln, err)
		}
		out = append(out, pts...)
	}
	return out, nil
}

// ---------------------------------------------------------------------------------------------
// New Relic.
//
// infra (Infrastructure agent HTTP server, integration SDK protocol v2):
//   {"name":"...","protocol_version":"2","integration_version":"...","data":[{"metrics":[{"event_type":"...", <flat attributes>}]}]}
// insights (Event API): a JSON array of flat events [{"eventType":"...", <flat attributes>}]
// Both carry gostatsd's values as flat attributes; with the default attribute names of BACKENDS.md
// ("Renaming Attributes") the value attributes are the ones in nrValueAttr and the percentile
// attributes "<count|mean|sum|sum_squares|upper|lower>_<NN>"; "name"/"type" identify the series;
// "timestamp", "interval", "integration_version" and the event type are bookkeeping. Every other
// attribute is a tag ("k:v"; a statsd tag without a value arrives as "k":"true" and is reported as "k:true";
// numeric looking tag values arrive as JSON numbers and are printed with %g).
//
// metrics (Metric API):
//   [{"common":{"attributes":{...},"interval.ms":N},"metrics":[{"name":"...","type":"gauge|count|summary","value":N | {"count","sum","min","max"},"timestamp":N,"attributes":{...}}]}]
// Common attributes are merged into every metric's tags, as the API does.

var nrValueAttr = map[string]bool{"value": true, "per_second": true, "min": true, "max": true, "count": true, "mean": true,
	"median": true, "std_dev": true, "sum": true, "sum_squares": true}
var nrPctAttr = regexp.MustCompile(`^(count|mean|sum|sum_squares|upper|lower)_-?\d+$`)
var nrMetaAttr = map[string]bool{"event_type": true, "eventType": true, "timestamp": true, "interval": true, "integration_version": true,
	"name": true, "type": true}

func nrAttrTag(k string, v any) (string, error) {
	switch x := v.(type) {
	case string:
		return k + ":" + x, nil
	case json.Number:
		f, err := x.Float64()
		if err != nil {
			return "", fmt.Errorf("attribute %q: %v", k, err)
		}
		return k + ":" + strconv.FormatFloat(f, 'g', -1, 64), nil
	case bool:
		return k + ":" + strconv.FormatBool(x), nil
	}
	return "", fmt.Errorf("attribute %q is neither a string, a number nor a boolean", k)
}

func nrFlatEvent(ev map[string]any, typeKey string) ([]WirePoint, error) {
	et, ok := ev[typeKey].(string)
	if !ok || et == "" {
		return nil, fmt.Errorf("event without %q", typeKey)
	}
	name, ok := ev["name"].(string)
	if !ok || name == "" {
		return nil, errors.New(`event without a "name" attribute`)
	}
	typ, _ := ev["type"].(string)
	var ts int64
	if t, ok := jsonFloat(ev["timestamp"]); ok {
		ts = int64(t)
	}
	var tags []string
	type fv struct {
		k string
		v float64
	}
	var vals []fv
	for k, v := range ev {
		switch {
		case nrMetaAttr[k]:
		case nrValueAttr[k] || nrPctAttr.MatchString(k):
			f, ok := jsonFloat(v)
			if !ok {
				return nil, fmt.Errorf("event %q: value attribute %q is not a number", name, k)
			}
			vals = append(vals, fv{k, f})
		default:
			t, err := nrAttrTag(k, v)
			if err != nil {
				return nil, fmt.Errorf("event %q: %v", name, err)
			}
			tags = append(tags, t)
		}
	}
	tags = sortedTags(tags)
	sort.Slice(vals, func(i, j int) bool { return vals[i].k < vals[j].k })
	out := make([]WirePoint, 0, len(vals))
	for _, x := range vals {
		out = append(out, WirePoint{Name: name, Field: x.k, Tags: tags, Value: x.v, Type: typ, TS: ts})
	}
	return out, nil
}

func decodeNewRelicInfra(body []byte) ([]WirePoint, error) {
	var doc struct {
		Name            *string `json:"name"`
		ProtocolVersion *string `json:"protocol_version"`
		Version         *string `json:"integration_version"`
		Data            *[]struct {
			Metrics []map[string]any `json:"metrics"`
		} `json:"data"`
	}
	if err := jsonStrict(body, &doc); err != nil {
		return nil, err
	}
	if doc.Name == nil || *doc.Name == "" || doc.ProtocolVersion == nil || doc.Version == nil || doc.Data == nil {
		return nil, errors.New("newrelic infra: name, protocol_version, integration_version and data are required")
	}
	if *doc.ProtocolVersion != "2" {
		return nil, fmt.Errorf("newrelic infra: protocol_version %q, this payload shape is version 2", *doc.ProtocolVersion)
	}
	var out []WirePoint
	for _, d := range *doc.Data {
		for _, ev := range d.Metrics {
			pts, err := nrFlatEvent(ev, "event_type")
			if err != nil {
				return nil, fmt.Errorf("newrelic infra: %v", err)
			}
			out = append(out, pts...)
		}
	}
	return out, nil
}

func decodeNewRelicInsights(body []byte) ([]WirePoint, error) {
	var doc []map[string]any
	if err := jsonStrict(body, &doc); err != nil {
		return nil, err
	}
	if doc == nil {
		return nil, errors.New("newrelic insights: the body must be a JSON array of events")
	}
	var out []WirePoint
	for _, ev := range doc {
		pts, err := nrFlatEvent(ev, "eventType")
		if err != nil {
			return nil, fmt.Errorf("newrelic insights: %v", err)
		}
		out = append(out, pts...)
	}
	return out, nil
}

func decodeNewRelicMetrics(body []byte) ([]WirePoint, error) {
	var doc []struct {
		Common struct {
			Attributes map[string]any `json:"attributes"`
			Timestamp  any            `json:"timestamp"`
		} `json:"common"`
		Metrics *[]struct {
			Name       *string        `json:"name"`
			Type       string         `json:"type"`
			Value      any            `json:"value"`
			Timestamp  any            `json:"timestamp"`
			Attributes map[string]any `json:"attributes"`
		} `json:"metrics"`
	}
	if err := jsonStrict(body, &doc); err != nil {
		return nil, err
	}
	if doc == nil {
		return nil, errors.New("newrelic metrics: the body must be a JSON array")
	}
	var out []WirePoint
	for bi, blk := range doc {
		if blk.Metrics == nil {
			return nil, fmt.Errorf(`newrelic metrics: block %d has no "metrics"`, bi)
		}
		for _, m := range *blk.Metrics {
			if m.Name == nil || *m.Name == "" {
				return nil, fmt.Errorf("newrelic metrics: block %d: metric without a name", bi)
			}
			// a metric's own attribute wins over a common attribute of the same name
			merged := map[string]any{}
			for k, v := range blk.Common.Attributes {
				merged[k] = v
			}
			for k, v := range m.Attributes {
				merged[k] = v
			}
			var tags []string
			for k, v := range merged {
				t, err := nrAttrTag(k, v)
				if err != nil {
					return nil, fmt.Errorf("newrelic metrics: %s: %v", *m.Name, err)
				}
				tags = append(tags, t)
			}
			tags = sortedTags(tags)
			tsv := m.Timestamp
			if tsv == nil {
				tsv = blk.Common.Timestamp
			}
			var ts int64
			if tsv != nil {
				f, ok := jsonFloat(tsv)
				if !ok {
					return nil, fmt.Errorf("newrelic metrics: %s: timestamp is not a number", *m.Name)
				}
				ts = int64(f)
			}
			base := WirePoint{Name: *m.Name, Tags: tags, Type: m.Type, TS: ts}
			switch m.Type {
			case "", "gauge", "count":
				switch v := m.Value.(type) {
				case json.Number:
					f, err := v.Float64()
					if err != nil {
						return nil, fmt.Errorf("newrelic metrics: %s: value: %v", *m.Name, err)
					}
					base.Value = f
				case nil:
					// The API requires "value"; a metric without one is well-formed JSON that the API drops.
					// It is reported (instead of failing the whole body) so that the caller can pin the loss
					// on the series: Value NaN, Str "no-value".
					base.Value, base.Str = math.NaN(), "no-value"
				default:
					return nil, fmt.Errorf("newrelic metrics: %s: value of a %s must be a number", *m.Name, m.Type)
				}
				out = append(out, base)
			case "summary":
				obj, ok := m.Value.(map[string]any)
				if !ok {
					return nil, fmt.Errorf("newrelic metrics: %s: value of a summary must be an object", *m.Name)
				}
				for _, k := range []string{"count", "sum", "min", "max"} {
					f, ok := jsonFloat(obj[k])
					if !ok {
						return nil, fmt.Errorf("newrelic metrics: %s: summary without a numeric %q", *m.Name, k)
					}
					p := base
					p.Field, p.Value = k, f
					out = append(out, p)
				}
			default:
				return nil, fmt.Errorf("newrelic metrics: %s: unknown type %q", *m.Name, m.Type)
			}
		}
	}
	return out, nil
}

// ---------------------------------------------------------------------------------------------
// OTLP/HTTP: the body is a protobuf ExportMetricsServiceRequest.
// Tags are the resource attributes followed by the data point attributes ("k:v"; an empty string value
// gives "k"; an array value gives one "k:v" per element).

func otlpAnyStrings(v *otlpcommon.AnyValue) []string {
	switch x := v.GetValue().(type) {
	case nil:
		return []string{""}
	case *otlpcommon.AnyValue_StringValue:
		return []string{x.StringValue}
	case *otlpcommon.AnyValue_BoolValue:
		return []string{strconv.FormatBool(x.BoolValue)}
	case *otlpcommon.AnyValue_IntValue:
		return []string{strconv.FormatInt(x.IntValue, 10)}
	case *otlpcommon.AnyValue_DoubleValue:
		return []string{strconv.FormatFloat(x.DoubleValue, 'g', -1, 64)}
	case *otlpcommon.AnyValue_ArrayValue:
		var out []string
		for _, e := range x.ArrayValue.GetValues() {
			out = append(out, otlpAnyStrings(e)...)
		}
		return out
	case *otlpcommon.AnyValue_BytesValue:
		return []string{fmt.Sprintf("%x", x.BytesValue)}
	}
	return []string{fmt.Sprint(v)}
}

func otlpTags(sets ...[]*otlpcommon.KeyValue) ([]string, error) {
	var tags []string
	for _, kvs := range sets {
		for _, kv := range kvs {
			if kv.GetKey() == "" {
				return nil, errors.New("attribute with an empty key")
			}
			for _, s := range otlpAnyStrings(kv.GetValue()) {
				if s == "" {
					tags = append(tags, kv.GetKey())
				} else {
					tags = append(tags, kv.GetKey()+":"+s)
				}
			}
		}
	}
	return sortedTags(tags), nil
}

// protoHasUnknown reports whether m or any message below it carries fields the schema does not know:
// bytes that are not an OTLP request often still "parse" as a bag of unknown fields.
func protoHasUnknown(m protoreflect.Message) bool {
	if len(m.GetUnknown()) > 0 {
		return true
	}
	found := false
	m.Range(func(fd protoreflect.FieldDescriptor, v protoreflect.Value) bool {
		switch {
		case fd.IsMap():
		case fd.IsList() && fd.Message() != nil:
			l := v.List()
			for i := 0; i < l.Len() && !found; i++ {
				found = protoHasUnknown(l.Get(i).Message())
			}
		case fd.Message() != nil:
			found = protoHasUnknown(v.Message())
		}
		return !found
	})
	return found
}

func decodeOTLPMetrics(body []byte) ([]WirePoint, error) {
	var req otlpcollector.ExportMetricsServiceRequest
	if err := proto.Unmarshal(body, &req); err != nil {
		return nil, fmt.Errorf("otlp: %v", err)
	}
	if protoHasUnknown(req.ProtoReflect()) {
		return nil, errors.New("otlp: the body has fields an ExportMetricsServiceRequest does not have")
	}
	var out []WirePoint
	number := func(name, typ string, rattr []*otlpcommon.KeyValue, dps []*otlpmetrics.NumberDataPoint) error {
		for _, dp := range dps {
			tags, err := otlpTags(rattr, dp.GetAttributes())
			if err != nil {
				return fmt.Errorf("otlp: %s: %v", name, err)
			}
			p := WirePoint{Name: name, Tags: tags, Type: typ, TS: int64(dp.GetTimeUnixNano())}
			switch v := dp.GetValue().(type) {
			case *otlpmetrics.NumberDataPoint_AsDouble:
				p.Value = v.AsDouble
			case *otlpmetrics.NumberDataPoint_AsInt:
				p.Value = float64(v.AsInt)
			default:
				return fmt.Errorf("otlp: %s: number data point without a value", name)
			}
			out = append(out, p)
		}
		return nil
	}
	for _, rm := range req.GetResourceMetrics() {
		rattr := rm.GetResource().GetAttributes()
		for _, sm := range rm.GetScopeMetrics() {
			for _, m := range sm.GetMetrics() {
				name := m.GetName()
				if name == "" {
					return nil, errors.New("otlp: metric without a name")
				}
				var err error
				switch d := m.GetData().(type) {
				case *otlpmetrics.Metric_Gauge:
					err = number(name, "gauge", rattr, d.Gauge.GetDataPoints())
				case *otlpmetrics.Metric_Sum:
					err = number(name, "sum", rattr, d.Sum.GetDataPoints())
				case *otlpmetrics.Metric_Histogram:
					for _, dp := range d.Histogram.GetDataPoints() {
						tags, terr := otlpTags(rattr, dp.GetAttributes())
						if terr != nil {
							return nil, fmt.Errorf("otlp: %s: %v", name, terr)
						}
						bc, eb := dp.GetBucketCounts(), dp.GetExplicitBounds()
						if len(bc) > 0 && len(bc) != len(eb)+1 {
							return nil, fmt.Errorf("otlp: %s: %d bucket counts for %d explicit bounds (must be bounds+1)", name, len(bc), len(eb))
						}
						if len(bc) == 0 && len(eb) > 0 {
							return nil, fmt.Errorf("otlp: %s: explicit bounds without bucket counts", name)
						}
						base := WirePoint{Name: name, Tags: tags, Type: "histogram", TS: int64(dp.GetTimeUnixNano())}
						add := func(field string, v float64) {
							p := base
							p.Field, p.Value = field, v
							out = append(out, p)
						}
						add("count", float64(dp.GetCount()))
						if dp.Sum != nil {
							add("sum", dp.GetSum())
						}
						if dp.Min != nil {
							add("min", dp.GetMin())
						}
						if dp.Max != nil {
							add("max", dp.GetMax())
						}
						for i, c := range bc {
							bound := "+Inf"
							if i < len(eb) {
								bound = strconv.FormatFloat(eb[i], 'f', -1, 64)
							}
							add("bucket_le_"+bound, float64(c))
						}
					}
				case *otlpmetrics.Metric_ExponentialHistogram:
					for _, dp := range d.ExponentialHistogram.GetDataPoints() {
						tags, terr := otlpTags(rattr, dp.GetAttributes())
						if terr != nil {
							return nil, fmt.Errorf("otlp: %s: %v", name, terr)
						}
						out = append(out, WirePoint{Name: name, Field: "count", Tags: tags, Type: "exponential_histogram", Value: float64(dp.GetCount()), TS: int64(dp.GetTimeUnixNano())})
						if dp.Sum != nil {
							out = append(out, WirePoint{Name: name, Field: "sum", Tags: tags, Type: "exponential_histogram", Value: dp.GetSum(), TS: int64(dp.GetTimeUnixNano())})
						}
					}
				case *otlpmetrics.Metric_Summary:
					for _, dp := range d.Summary.GetDataPoints() {
						tags, terr := otlpTags(rattr, dp.GetAttributes())
						if terr != nil {
							return nil, fmt.Errorf("otlp: %s: %v", name, terr)
						}
						out = append(out, WirePoint{Name: name, Field: "count", Tags: tags, Type: "summary", Value: float64(dp.GetCount()), TS: int64(dp.GetTimeUnixNano())},
							WirePoint{Name: name, Field: "sum", Tags: tags, Type: "summary", Value: dp.GetSum(), TS: int64(dp.GetTimeUnixNano())})
					}
				default:
					return nil, fmt.Errorf("otlp: metric %q carries no data", name)
				}
				if err != nil {
					return nil, err
				}
			}
		}
	}
	return out, nil
}

// ---------------------------------------------------------------------------------------------
// CloudWatch PutMetricData. The SDK would serialise the input; here the input struct is the wire.
// Rules of the API that make the service reject the call are treated as syntax: namespace and metric
// name required, 1..1000 datums, at most 30 dimensions with non-empty name and value, a value (or
// statistic set / value list) per datum, no NaN / infinity.

// DecodeCW decodes a cloudwatch PutMetricDataInput. Type is the datum's unit, Tags its dimensions.
func DecodeCW(in *awscw.PutMetricDataInput) ([]WirePoint, error) {
	if in == nil {
		return nil, errors.New("cloudwatch: nil input")
	}
	if in.Namespace == nil || *in.Namespace == "" {
		return nil, errors.New("cloudwatch: Namespace is required")
	}
	if len(in.MetricData) == 0 || len(in.MetricData) > 1000 {
		return nil, fmt.Errorf("cloudwatch: %d datums in one call (1..1000 allowed)", len(in.MetricData))
	}
	finite := func(name string, f float64) error {
		if math.IsNaN(f) || math.IsInf(f, 0) {
			return fmt.Errorf("cloudwatch: %s: value %v is rejected by the API", name, f)
		}
		return nil
	}
	var out []WirePoint
	for i, d := range in.MetricData {
		if d.MetricName == nil || *d.MetricName == "" {
			return nil, fmt.Errorf("cloudwatch: datum %d has no MetricName", i)
		}
		name := *d.MetricName
		if len(d.Dimensions) > 30 {
			return nil, fmt.Errorf("cloudwatch: %s: %d dimensions (at most 30)", name, len(d.Dimensions))
		}
		var tags []string
		seen := map[string]bool{}
		for _, dim := range d.Dimensions {
			if dim.Name == nil || *dim.Name == "" || dim.Value == nil || *dim.Value == "" {
				return nil, fmt.Errorf("cloudwatch: %s: dimension with an empty name or value", name)
			}
			if seen[*dim.Name] {
				return nil, fmt.Errorf("cloudwatch: %s: dimension %q given twice", name, *dim.Name)
			}
			seen[*dim.Name] = true
			tags = append(tags, *dim.Name+":"+*dim.Value)
		}
		base := WirePoint{Name: name, Tags: sortedTags(tags), Type: string(d.Unit)}
		if d.Timestamp != nil {
			base.TS = d.Timestamp.Unix()
		}
		switch {
		case d.Value != nil:
			if err := finite(name, *d.Value); err != nil {
				return nil, err
			}
			p := base
			p.Value = *d.Value
			out = append(out, p)
		case d.StatisticValues != nil:
			s := d.StatisticValues
			if s.SampleCount == nil || s.Sum == nil || s.Minimum == nil || s.Maximum == nil {
				return nil, fmt.Errorf("cloudwatch: %s: incomplete StatisticValues", name)
			}
			for _, kv := range []struct {
				k string
				v float64
			}{{"count", *s.SampleCount}, {"sum", *s.Sum}, {"min", *s.Minimum}, {"max", *s.Maximum}} {
				if err := finite(name, kv.v); err != nil {
					return nil, err
				}
				p := base
				p.Field, p.Value = kv.k, kv.v
				out = append(out, p)
			}
		case len(d.Values) > 0:
			if len(d.Counts) != 0 && len(d.Counts) != len(d.Values) {
				return nil, fmt.Errorf("cloudwatch: %s: %d Counts for %d Values", name, len(d.Counts), len(d.Values))
			}
			for _, v := range d.Values {
				if err := finite(name, v); err != nil {
					return nil, err
				}
				p := base
				p.Value = v
				out = append(out, p)
			}
		default:
			return nil, fmt.Errorf("cloudwatch: %s: datum without Value, StatisticValues or Values", name)
		}
	}
	return out, nil
}
