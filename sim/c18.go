package verifsim

// C18 — aligned flushing happens exactly on interval boundaries.
// World W7: the real MetricFlusher in aligned mode (util.AlignedTicker) with a recording
// AggregateProcesser. Regime A: bubble clock, timers fire exactly, slow consumer by holding a flush.
// Regime B: a tilinna/clock.Mock in the context, moved by the scheduler in arbitrary steps.

import (
	"context"
	"fmt"
	"sync"
	"sync/atomic"
	"time"

	"github.com/tilinna/clock"

	"github.com/atlassian/gostatsd"
	"github.com/atlassian/gostatsd/pkg/statsd"
)

func init() { register("C18", func() Property { return c18{} }) }

type c18 struct{}

func (c18) ID() string { return "C18" }

type c18Flush struct {
	interval time.Duration // what the flusher passed to Aggregator.Flush
	reading  time.Time     // clock reading when the aggregators were invoked
}

type c18Proc struct {
	mu      sync.Mutex
	flushes []c18Flush
	gate    *Gate
	now     func() time.Time
}

type c18Aggr struct {
	p *c18Proc
}

func (a c18Aggr) ReceiveMap(mm *gostatsd.MetricMap) {}
func (a c18Aggr) Flush(interval time.Duration) {
	a.p.mu.Lock()
	a.p.flushes = append(a.p.flushes, c18Flush{interval: interval, reading: a.p.now()})
	a.p.mu.Unlock()
}
func (a c18Aggr) Process(f statsd.ProcessFunc) {
	// hand the flusher a map so that it goes through its backends (their completion is part of a flush)
	mm := gostatsd.NewMetricMap(false)
	mm.Receive(&gostatsd.Metric{Name: "c18", Type: gostatsd.COUNTER, Value: 1, Rate: 1})
	f(mm)
}
func (a c18Aggr) Reset() {}

func (p *c18Proc) Process(ctx context.Context, fn statsd.DispatcherProcessFunc) gostatsd.Wait {
	fn(0, c18Aggr{p})
	if p.gate != nil {
		p.gate.Arrive("flush", nil) // a slow consumer: the flush does not complete until released
	}
	return func() {}
}

// c18Backend completes each send after an optional latency, with or without an error.
type c18Backend struct {
	name    string
	latency time.Duration
	failMod int // every failMod-th send reports an error (0 = never)
	n       int
}

func (b *c18Backend) Name() string                                           { return b.name }
func (b *c18Backend) SendEvent(ctx context.Context, e *gostatsd.Event) error { return nil }
func (b *c18Backend) SendMetricsAsync(ctx context.Context, mm *gostatsd.MetricMap, cb gostatsd.SendCallback) {
	b.n++
	var errs []error
	if b.failMod > 0 && b.n%b.failMod == 0 {
		errs = []error{fmt.Errorf("simulated send failure")}
	}
	if b.latency == 0 {
		cb(errs)
		return
	}
	go func() { time.Sleep(b.latency); cb(errs) }()
}

func (p *c18Proc) n() int { p.mu.Lock(); defer p.mu.Unlock(); return len(p.flushes) }

func onGrid(t time.Time, interval, offset time.Duration) bool {
	s := t.Add(-offset)
	return s.Truncate(interval).Equal(s)
}

func (c18) Run(e *Env) {
	e.ProbeDecl("regime-bubble", "regime-mock", "slow-consumer", "jump-over-several-intervals", "step-lands-on-boundary", "step-1ns-before-boundary", "offset-beyond-interval", "sub-second-interval", "non-round-interval", "start-on-boundary", "backend-attached", "start-before-unix-epoch", "start-beyond-int64-nanoseconds", "clock-moves-between-reading-and-arming", "negative-offset")
	intervals := []time.Duration{time.Millisecond, 250 * time.Millisecond, 333 * time.Millisecond, time.Second, 1500 * time.Millisecond, 2500 * time.Millisecond, 7 * time.Second, 10 * time.Second, 90 * time.Second, time.Hour}
	interval := intervals[e.Draw(len(intervals))]
	if interval < time.Second {
		e.Probe("sub-second-interval")
	}
	if interval%time.Second != 0 && interval > time.Second || interval == 7*time.Second || interval == 333*time.Millisecond {
		e.Probe("non-round-interval")
	}
	var offset time.Duration
	switch e.Draw(4) {
	case 0:
	case 1, 2:
		offset = time.Duration(e.Draw(1000)) * interval / 1000
	case 3:
		offset = interval*time.Duration(1+e.Draw(3)) + time.Duration(e.Draw(1000))*interval/1000
		e.Probe("offset-beyond-interval")
	}
	if e.Chance(1, 8) {
		offset = -offset // "flush two seconds before every boundary": beyond [0, interval) on the other side
		if offset < 0 {
			e.Probe("negative-offset")
		}
	}
	// start instant: anywhere, including exactly on a boundary
	switch e.Draw(3) {
	case 0:
		time.Sleep(time.Duration(e.Draw(100000))*time.Millisecond + time.Duration(e.Draw(1000000)))
	case 1:
		time.Sleep(time.Duration(e.Draw(4)) * interval)
	case 2:
		// land exactly on a grid point
		now := time.Now()
		next := now.Add(-offset).Truncate(interval).Add(interval).Add(offset)
		time.Sleep(next.Sub(now))
		e.Probe("start-on-boundary")
	}
	mockRegime := e.Bool()
	stalls := e.Chance(1, 3)
	proc := &c18Proc{now: time.Now}
	if stalls {
		proc.gate = NewGate("flush")
	}
	ctx, cancel := context.WithCancel(context.Background())
	var mock *clock.Mock
	start := time.Now()
	shiftedEpoch := false
	var armLag time.Duration
	if mockRegime {
		// the injected clock may read anything: also instants before the Unix epoch and beyond the
		// range of int64 nanoseconds since it (what the bubble clock reads is added, so that the
		// position relative to the grid stays drawn from the tape)
		sinceEpoch := start.Sub(time.Date(2000, 1, 1, 0, 0, 0, 0, time.UTC))
		shiftedEpoch = true
		switch e.Draw(6) {
		case 1:
			start = time.Date(1969, 7, 20, 20, 17, 40, 0, time.UTC).Add(sinceEpoch)
			e.Probe("start-before-unix-epoch")
		case 2:
			start = time.Date(2300, 1, 1, 0, 0, 0, 0, time.UTC).Add(sinceEpoch)
			e.Probe("start-beyond-int64-nanoseconds")
		case 3:
			start = time.Date(1, 1, 1, 0, 0, 0, 0, time.UTC).Add(sinceEpoch)
			e.Probe("start-before-unix-epoch")
		default:
			shiftedEpoch = false
		}
		mock = clock.NewMock(start)
		ctx = clock.Context(ctx, mock)
		if e.Chance(1, 3) {
			// the clock moves on between one of the first readings and what the reader does next (the
			// ticker goroutine is descheduled between reading the time and arming its first timer)
			lc := &c18LagClock{Mock: mock, lagAt: int32(1 + e.Draw(2)), lag: time.Duration(1+e.Draw(999)) * interval / 1000}
			ctx = clock.Context(ctx, lc)
			armLag = lc.lag
			e.Probe("clock-moves-between-reading-and-arming")
			e.Fault("preempted-after-reading-the-clock")
		}
		proc.now = mock.Now
		e.Probe("regime-mock")
	} else {
		e.Probe("regime-bubble")
	}
	var backends []gostatsd.Backend
	for i, n := 0, e.Draw(3); i < n; i++ {
		b := &c18Backend{name: fmt.Sprintf("b%d", i), failMod: e.Draw(4)}
		if !mockRegime && e.Bool() {
			b.latency = time.Duration(1+e.Draw(200)) * interval / 1000 // up to a fifth of an interval
		}
		backends = append(backends, b)
		e.Probe("backend-attached")
	}
	fl := statsd.NewMetricFlusher(interval, offset, true, proc, backends)
	var wg sync.WaitGroup
	wg.Add(1)
	go func() { defer wg.Done(); fl.Run(ctx) }()
	defer wg.Wait()
	if proc.gate != nil {
		defer proc.gate.Open(nil)
	}
	defer cancel()
	e.Settle()
	e.Event("cfg interval=%v offset=%v start=+%v mock=%v stalls=%v", interval, offset, start.Sub(time.Date(2000, 1, 1, 0, 0, 0, 0, time.UTC)), mockRegime, stalls)

	now := func() time.Time {
		if mockRegime {
			return mock.Now()
		}
		return time.Now()
	}
	firstBoundary := start.Add(-offset).Truncate(interval).Add(interval).Add(offset) // first grid point strictly after start
	if !firstBoundary.After(start) || firstBoundary.Sub(start) > interval {
		e.Failf("C18/harness", "bad first boundary")
	}
	checked := 0
	var tick time.Time
	everStalled := false
	var prevReading time.Time
	stallSincePrev, quiet := false, 0
	check := func() {
		if proc.gate != nil && proc.gate.Len() > 0 {
			stallSincePrev = true
		}
		if proc.gate != nil && proc.gate.Len() > 0 {
			if !everStalled {
				// flushes recorded so far ran before any stall could delay them; later ones may be late
				defer func() { everStalled = true }()
			}
		}
		for ; checked < proc.n(); checked++ {
			proc.mu.Lock()
			f := proc.flushes[checked]
			proc.mu.Unlock()
			if checked == 0 && shiftedEpoch {
				// the flusher takes its start-up time from the process clock (time.Now), not from the
				// injected one: with an injected clock of another epoch the first elapsed time says
				// nothing. The first flush is then placed by the clock reading when it ran.
				// It is taken to be for the first boundary after start-up (the only one the statement
				// allows); the later flushes' elapsed times are checked against that.
				tick = firstBoundary
			} else if checked == 0 {
				tick = start.Add(f.interval)
				if tick.Sub(start) > interval || !tick.After(start) {
					e.Failf("C18/first-flush-late", "first flush is for time start+%v; it must fall within one interval (%v) after start-up (offset %v)", f.interval, interval, offset)
				}
			} else {
				if f.interval <= 0 || f.interval%interval != 0 {
					e.Failf("C18/elapsed-not-positive-multiple", "flush %d: elapsed time handed to the aggregators is %v, not a positive multiple of the interval %v", checked+1, f.interval, interval)
				}
				tick = tick.Add(f.interval)
			}
			if !onGrid(tick, interval, offset) {
				e.Failf("C18/flush-time-off-grid", "flush %d is for time %v: minus the offset %v that is not a multiple of the interval %v", checked+1, tick.Format(time.RFC3339Nano), offset, interval)
			}
			if tick.After(f.reading) {
				e.Failf("C18/flush-before-its-time", "flush %d is for time %v but the clock read %v when it ran", checked+1, tick.Format(time.RFC3339Nano), f.reading.Format(time.RFC3339Nano))
			}
			if !mockRegime && !everStalled && !tick.Equal(f.reading) {
				e.Failf("C18/flush-not-at-its-time", "flush %d is for time %v but ran when the clock read %v (no stall, exact timers)", checked+1, tick.Format(time.RFC3339Nano), f.reading.Format(time.RFC3339Nano))
			}
			// a consumer that keeps up gets every tick when it is due: after three flushes in a row at
			// consecutive boundaries with no stall in between, the flush running at a boundary is for it
			if !mockRegime && onGrid(f.reading, interval, offset) && f.reading.Sub(prevReading) == interval && !stallSincePrev {
				quiet++
			} else {
				quiet = 0
			}
			if quiet >= 3 && !tick.Equal(f.reading) {
				e.Failf("C18/flush-for-a-stale-tick", "flush %d ran at the boundary %v with a consumer that has kept up for %d flushes, but the elapsed times handed to the aggregators add up to %v", checked+1, f.reading.Format(time.RFC3339Nano), quiet, tick.Format(time.RFC3339Nano))
			}
			prevReading, stallSincePrev = f.reading, false
			e.Event("flush %d elapsed=%v", checked+1, f.interval)
		}
		// promptness of the first flush: once the clock has reached the first boundary it must have happened
		// (a ticker that was preempted between reading the clock and arming its timer is that much late)
		if !now().Before(firstBoundary.Add(armLag)) && proc.n() == 0 {
			e.Failf("C18/first-flush-missing", "the clock reads start+%v, the first boundary was at start+%v, and no flush has happened", now().Sub(start), firstBoundary.Sub(start))
		}
		// bubble clock without stalls: exactly one flush per grid point passed
		if !mockRegime && !everStalled && (proc.gate == nil || proc.gate.Len() == 0) {
			want := 0
			if !now().Before(firstBoundary) {
				want = 1 + int(now().Sub(firstBoundary)/interval)
			}
			if proc.n() != want {
				e.Failf("C18/flush-count", "at start+%v there have been %d flushes; %d interval boundaries have passed", now().Sub(start), proc.n(), want)
			}
		}
	}

	nSteps := e.Range(3, 30*e.Depth())
	for step := 0; step < nSteps; step++ {
		e.Settle()
		check()
		e.Check()
		var held []*Parked
		if proc.gate != nil {
			held = proc.gate.Parked()
		}
		e.State("flushes=%d held=%d", proc.n(), len(held))
		if len(held) > 0 && e.Weighted("c18-release", []int{2, 1}) == 0 {
			proc.gate.Release(held[0], nil)
			e.Event("release flush")
			continue
		}
		if len(held) > 0 {
			everStalled = true
			e.Probe("slow-consumer")
			e.Fault("slow-consumer")
		}
		// advance the clock
		cur := now()
		nb := cur.Add(-offset).Truncate(interval).Add(interval).Add(offset) // next boundary strictly after cur
		var d time.Duration
		switch e.Weighted("c18-step", []int{3, 2, 2, 2, 2}) {
		case 0:
			d = nb.Sub(cur)
			e.Probe("step-lands-on-boundary")
		case 1:
			d = nb.Sub(cur) - 1
			e.Probe("step-1ns-before-boundary")
		case 2:
			d = nb.Sub(cur) + 1
		case 3:
			d = time.Duration(1+e.Draw(1000)) * interval / 1000
		case 4:
			d = time.Duration(2+e.Draw(4))*interval + time.Duration(e.Draw(1000))*interval/1000
			e.Probe("jump-over-several-intervals")
			e.Fault("clock-jump")
		}
		if d <= 0 {
			d = 1
		}
		e.Event("advance %v", d)
		if mockRegime {
			mock.Add(d)
		} else {
			time.Sleep(d)
		}
		e.Overlap = true
	}
	e.Settle()
	check()
	if proc.gate != nil {
		for _, p := range proc.gate.Parked() {
			proc.gate.Release(p, nil)
			e.Settle()
		}
	}
	// liveness once nothing is stalled: small steps over three intervals produce at least two more flushes
	before := proc.n()
	for i := 0; i < 12; i++ {
		if mockRegime {
			mock.Add(interval / 4)
		} else {
			time.Sleep(interval / 4)
		}
		e.Settle()
		if proc.gate != nil {
			for _, p := range proc.gate.Parked() {
				proc.gate.Release(p, nil)
				e.Settle()
			}
		}
		check()
	}
	if proc.n()-before < 2 {
		e.Failf("C18/flushing-stopped", "the clock advanced three intervals in quarter-interval steps with no stall, yet only %d flushes happened", proc.n()-before)
	}
	e.Note["flushes"] = proc.n()
}

// c18LagClock is the injected mock clock, except that right after its lagAt-th reading the time
// moves on by lag: whoever read it acts on a stale reading.
type c18LagClock struct {
	*clock.Mock
	n     atomic.Int32
	lagAt int32
	lag   time.Duration
}

func (c *c18LagClock) Now() time.Time {
	t := c.Mock.Now()
	if c.n.Add(1) == c.lagAt {
		c.Mock.Add(c.lag)
	}
	return t
}
