package verifsim

// C05 — lines of a datagram are independent and parsed data never aliases the buffer.
// World: real DatagramReceiver + real DatagramParser goroutines (sharing the real pools), wired as
// statsd.Server.RunWithCustomSocket wires them, with a recording pipeline handler and statser.

import (
	"bytes"
	"context"
	"fmt"
	"net"
	"sort"
	"strings"
	"sync"
	"time"

	"github.com/sirupsen/logrus"

	"github.com/atlassian/gostatsd"
	"github.com/atlassian/gostatsd/internal/lexer"
	"github.com/atlassian/gostatsd/internal/pool"
	"github.com/atlassian/gostatsd/pkg/stats"
	"github.com/atlassian/gostatsd/pkg/statsd"
)

func init() { register("C05", func() Property { return c05{} }) }

type c05 struct{}

func (c05) ID() string { return "C05" }

var c05Invalid = []string{"novalue", "a:1", "a:1|", "a:1|x", "a:abc|c", ":1|c", "a:1|c|@", "a:1|c|@x", "a:NaN|g", "_e{1,2}:a|b", "_e{a}", "_x",
	"a|b:c", "a:1|m", "_e{3,3}:abc|de", "::|", "a:1|c|#t|@", "|", "a:|c", "_e{1,1}:a|b|p:urgent", "_e{1,1}:a|b|d:x",
	"a:-|c", "a:-|g", "a:+|ms", "a:.|c", "a:1e|c"}
var c05Names = []string{"plain", "a/b", "sp ace", "t\tab", "x$y%z", "dot.name-dash_us", "UPPER/lower", "a//b  c", "né", "p(q)"}
var c05Tags = []string{"env:prod", "host:web1", "host:web2", "k", "host:", "region:us", "a:b:c", "x/y"}

// genC05Line: one line; now and then with the carriage return a CRLF-minded sender leaves at its end (a byte like any
// other to the grammar: whatever it does to the line alone it must do to the line inside a datagram).
func genC05Line(e *Env) string {
	l := genC05LineBody(e)
	if e.Chance(1, 12) {
		e.Probe("line-ends-in-carriage-return")
		return l + "\r"
	}
	return l
}

func genC05LineBody(e *Env) string {
	switch e.Weighted("line-kind", []int{8, 3, 2, 1, 2}) {
	case 0: // valid metric line, maybe needing normalisation, maybe with host tags
		name := c05Names[e.Draw(len(c05Names))]
		typ := []string{"c", "g", "ms", "h", "s"}[e.Draw(5)]
		val := decimal(e, true)
		if typ == "s" {
			val = fmt.Sprintf("member%d", e.Draw(4))
		}
		if typ == "g" {
			val = decimal(e, false)
		}
		l := name + ":" + val + "|" + typ
		if e.Chance(1, 3) {
			l += "|@" + []string{"0.5", "0.1", "1", "0.25"}[e.Draw(4)]
		}
		if nt := e.Draw(4); nt > 0 {
			var ts []string
			for i := 0; i < nt; i++ {
				ts = append(ts, c05Tags[e.Draw(len(c05Tags))])
			}
			l += "|#" + strings.Join(ts, ",")
		}
		if e.Chance(1, 8) {
			l += "|c:container-id"
		}
		return l
	case 1:
		return c05Invalid[e.Draw(len(c05Invalid))]
	case 2: // event
		title := []string{"deploy", "t", "up down", "a|b"}[e.Draw(4)]
		text := []string{"done", "line1\\nline2", "x", ""}[e.Draw(4)]
		l := fmt.Sprintf("_e{%d,%d}:%s|%s", len(title), len(text), title, text)
		if e.Bool() {
			l += "|#" + c05Tags[e.Draw(len(c05Tags))]
		}
		if e.Chance(1, 3) {
			l += "|d:12345"
		}
		if e.Chance(1, 3) {
			l += "|p:low|t:error|k:key1|s:srctype|h:evhost"
		}
		return l
	case 3:
		return ""
	default: // arbitrary bytes without newline
		n := 1 + e.Draw(12)
		b := make([]byte, n)
		for i := range b {
			const alphabet = "ab:|#@,_e{}0159.-/ \x00\xff"
			b[i] = alphabet[e.Draw(len(alphabet))]
		}
		return string(b)
	}
}

type twinMetric struct {
	kind, name, source, member string
	tags                       []string
	value, rate                float64
}

type c05Dgram struct {
	id       int
	ip       string
	payload  []byte
	recvNano int64
	wantM    []twinMetric
	wantE    []gostatsd.Event
	wantBad  int
	gotMaps  []*RecDispatch
	gotEvs   []*RecEvent
	checked  bool
	ids      []int // socket datagram ids (several for a burst read as one batch)
}

func kindOf(t gostatsd.MetricType) string {
	switch t {
	case gostatsd.COUNTER:
		return "counter"
	case gostatsd.TIMER:
		return "timer"
	case gostatsd.GAUGE:
		return "gauge"
	case gostatsd.SET:
		return "set"
	}
	return "?"
}

// expectFromTwins parses each newline-separated segment alone with a fresh real lexer and applies
// the datagram-level rules of the property statement (receive time, source, ignore-host).
func expectFromTwins(d *c05Dgram, ns string, ignoreHost bool) {
	segs := bytes.Split(d.payload, []byte("\n"))
	if len(segs) > 0 && len(segs[len(segs)-1]) == 0 {
		segs = segs[:len(segs)-1]
	}
	for _, seg := range segs {
		l := &lexer.Lexer{MetricPool: pool.NewMetricPool(0)}
		m, ev, err := l.Run(append([]byte(nil), seg...), ns)
		switch {
		case err != nil:
			d.wantBad++
		case m != nil:
			tm := twinMetric{kind: kindOf(m.Type), name: m.Name, member: m.StringValue, value: m.Value, rate: m.Rate, tags: append([]string(nil), m.Tags...)}
			if ignoreHost {
				for i, t := range tm.tags {
					if strings.HasPrefix(t, "host:") {
						tm.source = t[5:]
						tm.tags = append(append([]string(nil), tm.tags[:i]...), tm.tags[i+1:]...)
						break
					}
				}
			} else {
				tm.source = d.ip
			}
			d.wantM = append(d.wantM, tm)
		case ev != nil:
			c := copyEvent(ev)
			c.Source = gostatsd.Source(d.ip)
			if c.DateHappened == 0 {
				c.DateHappened = d.recvNano / 1e9
			}
			d.wantE = append(d.wantE, c)
		}
	}
}

func eventString(e gostatsd.Event) string {
	return fmt.Sprintf("title=%q text=%q date=%d key=%q srctype=%q tags=%q source=%q pri=%d alert=%d", e.Title, e.Text, e.DateHappened, e.AggregationKey, e.SourceTypeName, []string(e.Tags), e.Source, e.Priority, e.AlertType)
}

func (c05) Run(e *Env) {
	e.ProbeDecl("normalised-name", "bad-line", "event-line", "empty-line", "host-tag-under-ignore-host", "two-host-tags", "same-gauge-twice", "scribbled", "overlap-delivery-while-parser-parked", "no-trailing-newline", "multi-parser", "burst-read-as-one-batch", "datagram-near-64k", "ipv6-sender", "line-ends-in-carriage-return")
	nParsers := e.Range(1, 4)
	nReaders := e.Range(1, 2)
	ignoreHost := e.Bool()
	ns := ""
	if e.Bool() {
		ns = "pre.fix"
	}
	overlap := e.Chance(1, 2)
	if nParsers > 1 {
		e.Probe("multi-parser")
	}
	h := &RecHandler{Env: e}
	if overlap {
		h.EvGate = NewGate("event")
	}
	st := NewRecStatser()
	sock := NewSimSocket()
	ch := make(chan []*statsd.Datagram)
	parser := statsd.NewDatagramParser(ch, ns, ignoreHost, e.Draw(3), h, 0, false, logrus.StandardLogger())
	recvBatch := e.Range(1, 3)
	recv := statsd.NewDatagramReceiver(ch, func() (net.PacketConn, error) { return sock, nil }, nReaders, recvBatch)
	ctx, cancel := context.WithCancel(stats.NewContext(context.Background(), st))
	var wg sync.WaitGroup
	start := func(f func(context.Context)) {
		wg.Add(1)
		go func() { defer wg.Done(); f(ctx) }()
	}
	start(parser.RunMetricsContext)
	for i := 0; i < nParsers; i++ {
		start(parser.Run)
	}
	start(recv.Run)
	start(recv.RunMetricsContext)
	defer wg.Wait()
	defer cancel()
	if h.EvGate != nil {
		defer h.EvGate.Open(nil)
	}
	e.Event("cfg parsers=%d readers=%d ignoreHost=%v ns=%q overlap=%v", nParsers, nReaders, ignoreHost, ns, overlap)
	e.Settle()

	byTime := map[int64]*c05Dgram{}
	byIP := map[string]*c05Dgram{}
	var all []*c05Dgram
	var totM, totE, totB float64
	mapsSeen, evsSeen := 0, 0
	nextID := 0

	deliver := func(decoy bool) *c05Dgram {
		time.Sleep(time.Duration(1+e.Draw(20)) * time.Millisecond) // every datagram at its own instant
		e.Settle()
		if sock.Waiting() == 0 {
			return nil
		}
		nextID++
		d := &c05Dgram{id: nextID, ip: fmt.Sprintf("10.%d.%d.%d", 2+nextID/60000, (nextID/250)%250, 1+nextID%250)}
		if !decoy && e.Chance(1, 5) {
			d.ip = fmt.Sprintf("2001:db8::%x", 0x10+nextID) // a sender reaching the socket over IPv6
			e.Probe("ipv6-sender")
		}
		var lines []string
		if decoy {
			lines = []string{"decoy.metric:1|c|#decoytag1,decoytag2,decoytag3,host:decoyhost", "decoy.set:decoymember|s|#zz", "_e{5,5}:decoy|decoy|#decoyevtag"}
		} else {
			for i, n := 0, e.Range(1, 8); i < n; i++ {
				lines = append(lines, genC05Line(e))
			}
		}
		p := strings.Join(lines, "\n")
		if e.Bool() {
			p += "\n"
		} else {
			e.Probe("no-trailing-newline")
		}
		if !decoy && e.Chance(1, 500) {
			// a datagram close to the largest a datagram socket can carry (65 508 - 65 535 bytes)
			target := 65535 - e.Draw(28)
			var sb strings.Builder
			for sb.Len()+len(p)+1 < target-12 {
				sb.WriteString("pad.c:1|c\n")
			}
			filler := target - sb.Len() - len(p) - 1
			if filler >= 9 {
				sb.WriteString("pad.g:" + strings.Repeat("7", filler-8) + "|g\n") // fills up to the exact size
			}
			p = sb.String() + p
			e.Probe("datagram-near-64k")
		}
		d.payload = []byte(p)
		d.recvNano = time.Now().UnixNano()
		d.ids = []int{d.id}
		expectFromTwins(d, ns, ignoreHost)
		byTime[d.recvNano] = d
		byIP[d.ip] = d
		all = append(all, d)
		burst := []*Dgram{{ID: d.id, Payload: d.payload, Addr: &net.UDPAddr{IP: net.ParseIP(d.ip), Port: 5000}}}
		if !decoy && recvBatch > 1 && e.Chance(1, 4) {
			// more datagrams are waiting in the socket buffer: the reader gets them in the same batch
			// (one receive timestamp, one pass through the parser, one dispatched map)
			for len(burst) < recvBatch && e.Bool() {
				nextID++
				m := &c05Dgram{id: nextID, ip: fmt.Sprintf("10.%d.%d.%d", 2+nextID/60000, (nextID/250)%250, 1+nextID%250), recvNano: d.recvNano}
				var ls []string
				for i, n := 0, e.Range(1, 4); i < n; i++ {
					ls = append(ls, genC05Line(e))
				}
				m.payload = []byte(strings.Join(ls, "\n"))
				expectFromTwins(m, ns, ignoreHost)
				d.wantM = append(d.wantM, m.wantM...)
				d.wantE = append(d.wantE, m.wantE...)
				d.wantBad += m.wantBad
				d.ids = append(d.ids, m.id)
				d.payload = append(append(d.payload, []byte("\n<next datagram of the batch>\n")...), m.payload...)
				byIP[m.ip] = d
				burst = append(burst, &Dgram{ID: m.id, Payload: m.payload, Addr: &net.UDPAddr{IP: net.ParseIP(m.ip), Port: 5000}})
			}
			if len(burst) > 1 {
				e.Probe("burst-read-as-one-batch")
			}
		}
		if len(burst) > 1 {
			sock.DeliverBurst(burst)
		} else {
			sock.Deliver(burst[0])
		}
		e.Event("deliver #%d from %s %q", d.id, d.ip, truncStr(string(d.payload), 400))
		return d
	}

	// attribute new dispatches to datagrams
	absorb := func() {
		for ; mapsSeen < h.NMaps(); mapsSeen++ {
			r := h.MapAt(mapsSeen)
			if len(r.Dups) > 0 {
				e.Failf("C05/dup-in-map", "series twice in one dispatched map: %v", r.Dups)
			}
			var owner *c05Dgram
			for _, k := range sortedKeys(r.Obs) {
				o := r.Obs[k]
				d := byTime[o.TS]
				if d == nil {
					e.Failf("C05/timestamp-not-receive-time", "series %s carries timestamp %d which is no datagram's receive time", k, o.TS)
				}
				if owner != nil && owner != d {
					e.Failf("C05/timestamp-mixed", "one dispatched map carries receive times of datagrams #%d and #%d", owner.id, d.id)
				}
				owner = d
			}
			if owner == nil {
				e.Failf("C05/empty-dispatch", "an empty metric map was dispatched")
			}
			owner.gotMaps = append(owner.gotMaps, r)
		}
		for ; evsSeen < h.NEvents(); evsSeen++ {
			r := h.EventAt(evsSeen)
			d := byIP[string(r.Copy.Source)]
			if d == nil {
				e.Failf("C05/event-source", "event %s does not carry a sender address as source", eventString(r.Copy))
			}
			d.gotEvs = append(d.gotEvs, r)
		}
	}

	verify := func(d *c05Dgram) {
		d.checked = true
		want := Model{}
		for _, m := range d.wantM {
			if m.name != "" && strings.ContainsAny(string(d.payload), "/ \t$%()") {
				e.Probe("normalised-name")
			}
			want.AddRaw(KeyOf(m.kind, m.name, m.tags, m.source), m.kind, m.value, m.rate, m.member, d.recvNano)
		}
		for _, a := range want {
			if a.Kind == "gauge" && len(a.GaugeAlt) > 1 {
				e.Probe("same-gauge-twice")
			}
		}
		if d.wantBad > 0 {
			e.Probe("bad-line")
		}
		if ignoreHost && bytes.Contains(d.payload, []byte("host:")) {
			e.Probe("host-tag-under-ignore-host")
			if bytes.Count(d.payload, []byte("host:")) > 1 {
				e.Probe("two-host-tags")
			}
		}
		if bytes.Contains(d.payload, []byte("\n\n")) || bytes.HasPrefix(d.payload, []byte("\n")) {
			e.Probe("empty-line")
		}
		if len(d.wantE) > 0 {
			e.Probe("event-line")
		}
		where := fmt.Sprintf("datagram #%d %q (ignoreHost=%v ns=%q)", d.id, d.payload, ignoreHost, ns)
		if len(d.wantM) == 0 {
			if len(d.gotMaps) != 0 {
				e.Failf("C05/unexpected-metrics", "%s: no line yields a metric alone, but a map was dispatched: %s", where, CanonObs(d.gotMaps[0].Obs))
			}
		} else {
			if len(d.gotMaps) != 1 {
				e.Failf("C05/dispatch-count", "%s: %d metric maps dispatched, expected 1", where, len(d.gotMaps))
			}
			got := d.gotMaps[0].Obs
			for _, k := range sortedKeys(want) {
				w := want[k]
				g := got[k]
				if g == nil {
					e.Failf("C05/series-missing", "%s: series %s (parsed from a line alone) is missing; dispatched: %s", where, k, CanonObs(got))
				}
				if g.TS != d.recvNano {
					e.Failf("C05/timestamp-not-receive-time", "%s: series %s timestamp %d, receive time %d", where, k, g.TS, d.recvNano)
				}
				switch w.Kind {
				case "counter":
					if g.Counter != w.Counter {
						e.Failf("C05/counter-value", "%s: %s = %d, lines alone give %d", where, k, g.Counter, w.Counter)
					}
				case "timer":
					if !floatsEqual(sortedFloats(g.Values), sortedFloats(w.Values)) || !approx(g.Sampled, w.Sampled, 1e-9) {
						e.Failf("C05/timer-value", "%s: %s = %s/%v, lines alone give %s/%v", where, k, fmtFloats(sortedFloats(g.Values)), g.Sampled, fmtFloats(sortedFloats(w.Values)), w.Sampled)
					}
				case "set":
					if !sameStrings(g.Members, keysOf(w.Members)) {
						e.Failf("C05/set-value", "%s: %s = %v, lines alone give %v", where, k, g.Members, keysOf(w.Members))
					}
				case "gauge":
					if g.Gauge != w.Gauge && !(g.Gauge != g.Gauge && w.Gauge != w.Gauge) {
						cls := "C05/gauge-value"
						for _, alt := range w.GaugeAlt {
							if alt == g.Gauge {
								cls = "C05/gauge-not-last-line"
							}
						}
						e.Failf(cls, "%s: gauge %s = %v, the last line setting it says %v (all lines: %v)", where, k, g.Gauge, w.Gauge, w.GaugeAlt)
					}
				}
			}
			for _, k := range sortedKeys(got) {
				if want[k] == nil {
					e.Failf("C05/series-unexpected", "%s: series %s dispatched but no line alone yields it; expected %v", where, k, sortedKeys(want))
				}
			}
		}
		// events, in line order
		if len(d.gotEvs) != len(d.wantE) {
			e.Failf("C05/event-count", "%s: %d events dispatched, lines alone give %d", where, len(d.gotEvs), len(d.wantE))
		}
		for i, w := range d.wantE {
			if g := eventString(d.gotEvs[i].Copy); g != eventString(w) {
				e.Failf("C05/event-fields", "%s: event %d is %s, line alone gives %s", where, i, g, eventString(w))
			}
		}
		totM += float64(len(d.wantM))
		totE += float64(len(d.wantE))
		totB += float64(d.wantBad)
		e.Event("verified #%d metrics=%d events=%d bad=%d", d.id, len(d.wantM), len(d.wantE), d.wantBad)
	}

	checkCounters := func() {
		st.NotifyFlush(ctx, time.Second)
		e.Settle()
		if g, ok := st.G("parser.metrics_received{}"); !ok || g != totM {
			e.Failf("C05/metrics-received-count", "parser.metrics_received = %v (present=%v), lines alone give %v", g, ok, totM)
		}
		if g, ok := st.G("parser.events_received{}"); !ok || g != totE {
			e.Failf("C05/events-received-count", "parser.events_received = %v (present=%v), lines alone give %v", g, ok, totE)
		}
		if g, ok := st.G("parser.bad_lines_seen{}"); (ok && g != totB) || (!ok && totB != 0) {
			e.Failf("C05/bad-lines-count", "parser.bad_lines_seen = %v (present=%v), rejected lines alone: %v", g, ok, totB)
		}
	}

	// resnapshot everything dispatched for d and compare with what was seen at dispatch time
	recheck := func(d *c05Dgram, why string) {
		for _, r := range d.gotMaps {
			now, _ := Snapshot(r.Map)
			if CanonObs(now) != CanonObs(r.Obs) || tagsCanon(now) != tagsCanon(r.Obs) {
				e.Failf("C05/metrics-changed-after-"+why, "datagram #%d %q: dispatched map changed after %s: was %s [%s], now %s [%s]", d.id, d.payload, why, CanonObs(r.Obs), tagsCanon(r.Obs), CanonObs(now), tagsCanon(now))
			}
		}
		for _, r := range d.gotEvs {
			if eventString(*r.Ev) != eventString(r.Copy) {
				e.Failf("C05/event-changed-after-"+why, "datagram #%d: event changed after %s: was %s, now %s", d.id, why, eventString(r.Copy), eventString(*r.Ev))
			}
		}
	}

	nD := e.Range(1, 10*e.Depth())
	for i := 0; i < nD; i++ {
		d := deliver(false)
		if d == nil {
			e.Failf("C05/no-reader", "no reader parked")
		}
		e.Settle()
		absorb()
		var group = []*c05Dgram{d}
		// overlap class: while a parser is parked inside DispatchEvent (mid-datagram), more datagrams
		// may be delivered and parsed by other parsers / queued behind it
		for h.EvGate != nil && h.EvGate.Len() > 0 {
			parked := h.EvGate.Parked()
			acts := []int{3, 0}
			if sock.Waiting() > 0 && len(group) < 4 {
				acts[1] = 2
			}
			if e.Weighted("c05-overlap", acts) == 1 {
				d2 := deliver(false)
				if d2 != nil {
					group = append(group, d2)
					e.Probe("overlap-delivery-while-parser-parked")
					e.Overlap = true
					e.Fault("event-dispatch-stall")
				}
			} else {
				p := parked[e.Choose("release-event", len(parked))]
				h.EvGate.Release(p, nil)
				e.Event("release event %s", p.Key)
			}
			e.Settle()
			absorb()
		}
		e.Settle()
		absorb()
		e.Check()
		for _, g := range group {
			verify(g)
		}
		checkCounters()
		// storage fault: the datagram's buffer is overwritten after gostatsd released it
		for _, g := range group {
			if bufs := bufsOf(sock, g); len(bufs) > 0 && e.Chance(3, 4) {
				for _, buf := range bufs {
					for j := range buf {
						buf[j] = "X\n9|:#,"[j%7]
					}
				}
				e.Fault("buffer-scribble")
				e.Probe("scribbled")
				recheck(g, "scribble")
			}
		}
		if e.Chance(1, 2) {
			// force pooled Metric reuse: a decoy with other tags through the same parsers
			dd := deliver(true)
			if dd != nil {
				e.Settle()
				for h.EvGate != nil && h.EvGate.Len() > 0 {
					h.EvGate.Release(h.EvGate.Parked()[0], nil)
					e.Settle()
				}
				absorb()
				verify(dd)
				checkCounters()
				e.Fault("pool-reuse-decoy")
				for _, g := range group {
					recheck(g, "decoy")
				}
			}
		}
		e.State("dgrams=%d maps=%d evs=%d", len(all), mapsSeen, evsSeen)
	}
	for _, d := range all {
		if !d.checked {
			e.Failf("C05/harness", "datagram #%d never verified", d.id)
		}
		recheck(d, "run")
	}
}

func tagsCanon(m map[SeriesKey]*Obs) string {
	var sb strings.Builder
	for _, k := range sortedKeys(m) {
		t := append([]string(nil), m[k].Tags...)
		sort.Strings(t)
		fmt.Fprintf(&sb, "%s<%s|%s>", k, strings.Join(t, ","), m[k].Source)
	}
	return sb.String()
}

func bufsOf(sock *SimSocket, d *c05Dgram) [][]byte {
	var out [][]byte
	for _, id := range d.ids {
		if b := sock.Bufs[id]; b != nil {
			out = append(out, b)
		}
	}
	return out
}

func truncStr(s string, n int) string {
	if len(s) <= n {
		return s
	}
	return fmt.Sprintf("%s ... (%d bytes)", s[:n], len(s))
}
