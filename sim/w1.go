package verifsim

// w1.go: world W1 — the real standalone statsd.Server on a simulated datagram socket with
// recording / gated backends.

import (
	"context"
	"errors"
	"fmt"
	"net"
	"sync"
	"sync/atomic"
	"time"

	"github.com/spf13/viper"

	"github.com/atlassian/gostatsd"
	"github.com/atlassian/gostatsd/pkg/statsd"
)

// ---------------------------------------------------------------------------------------------
// Simulated datagram socket

type Dgram struct {
	ID      int
	Payload []byte
	Addr    *net.UDPAddr
}

// SimSocket is an in-memory net.PacketConn. Readers park in ReadFrom; the scheduler hands them one
// datagram at a time with Deliver.
type SimSocket struct {
	mu      sync.Mutex
	waiting int
	ch      chan *Dgram
	burst   chan []*Dgram
	closed  chan struct{}
	once    sync.Once
	// Bufs remembers the (pooled) buffer each delivered datagram was copied into, by datagram ID.
	Bufs map[int][]byte
}

func NewSimSocket() *SimSocket {
	return &SimSocket{ch: make(chan *Dgram), burst: make(chan []*Dgram), closed: make(chan struct{}), Bufs: map[int][]byte{}}
}

var errSockClosed = errors.New("use of closed network connection")

func (s *SimSocket) ReadFrom(b []byte) (int, net.Addr, error) {
	s.mu.Lock()
	s.waiting++
	s.mu.Unlock()
	select {
	case d := <-s.ch:
		s.mu.Lock()
		s.waiting--
		s.Bufs[d.ID] = b[:cap(b)]
		s.mu.Unlock()
		n := copy(b, d.Payload)
		return n, d.Addr, nil
	case <-s.closed:
		s.mu.Lock()
		s.waiting--
		s.mu.Unlock()
		return 0, nil, errSockClosed
	}
}

// ReadBatch makes SimSocket a statsd.BatchReader (hook H5): a reader parks here and is handed either
// one datagram (Deliver) or a burst (DeliverBurst), which it returns as one batch - what a UDP socket
// read through recvmmsg does when several datagrams are waiting.
func (s *SimSocket) ReadBatch(ms []statsd.Message) (int, error) {
	s.mu.Lock()
	s.waiting++
	s.mu.Unlock()
	var ds []*Dgram
	select {
	case d := <-s.ch:
		ds = []*Dgram{d}
	case ds = <-s.burst:
	case <-s.closed:
		s.mu.Lock()
		s.waiting--
		s.mu.Unlock()
		return 0, errSockClosed
	}
	if len(ds) > len(ms) {
		panic(fmt.Sprintf("SimSocket: burst of %d datagrams for a reader with batch size %d", len(ds), len(ms)))
	}
	s.mu.Lock()
	s.waiting--
	for i, d := range ds {
		b := ms[i].Buffers[0]
		s.Bufs[d.ID] = b[:cap(b)]
		ms[i].N = copy(b, d.Payload)
		ms[i].Addr = d.Addr
	}
	s.mu.Unlock()
	return len(ds), nil
}

// DeliverBurst hands ds to one parked reader as a single batch (len(ds) must not exceed the
// receiver's batch size). The caller must have checked Waiting() > 0.
func (s *SimSocket) DeliverBurst(ds []*Dgram) { s.burst <- ds }

// Waiting is the number of readers parked in ReadFrom (stable at quiescence).
func (s *SimSocket) Waiting() int { s.mu.Lock(); defer s.mu.Unlock(); return s.waiting }

// Deliver hands d to one parked reader. The caller must have checked Waiting() > 0.
func (s *SimSocket) Deliver(d *Dgram) { s.ch <- d }

func (s *SimSocket) WriteTo(b []byte, addr net.Addr) (int, error) { return len(b), nil }
func (s *SimSocket) Close() error {
	err := errSockClosed
	s.once.Do(func() { close(s.closed); err = nil })
	return err
}
func (s *SimSocket) LocalAddr() net.Addr                { return &net.UDPAddr{IP: net.IPv4(10, 0, 0, 1), Port: 8125} }
func (s *SimSocket) SetDeadline(t time.Time) error      { return nil }
func (s *SimSocket) SetReadDeadline(t time.Time) error  { return nil }
func (s *SimSocket) SetWriteDeadline(t time.Time) error { return nil }

func ClientAddr(i int) *net.UDPAddr {
	return &net.UDPAddr{IP: net.IPv4(10, 1, 0, byte(1+i)), Port: 40000 + i}
}
func ClientIP(i int) string { return fmt.Sprintf("10.1.0.%d", 1+i) }

// ---------------------------------------------------------------------------------------------
// Recording backend

// BackendCall is one SendMetricsAsync invocation as seen by the recording backend.
type BackendCall struct {
	Idx  int
	Obs  map[SeriesKey]*Obs
	Dups []string
	Map  *gostatsd.MetricMap // identity of the aggregator's map (pointer compared only, never logged)
	At   time.Time
	cb   gostatsd.SendCallback
	Done bool
}

// RecBackend records every flush it is handed (deep copy taken synchronously) and every event.
// If SyncGate is set the synchronous phase parks there (a stalled shard); if CbGate is set the
// completion callback parks there.
type RecBackend struct {
	BName    string
	mu       sync.Mutex
	Calls    []*BackendCall
	Events   []*gostatsd.Event
	SyncGate *Gate
	CbGate   *Gate
	EvGate   *Gate
	// Stall, if set, says for the call with the given index how long (simulated time) the synchronous
	// phase and the completion callback are held up: a slow backend. It is a pure function of tables
	// the driver drew before the run's first flush.
	Stall    func(callIdx int) (sync, cb time.Duration)
	stalling atomic.Int32
}

// Stalling reports how many synchronous phases are being held up right now.
func (b *RecBackend) Stalling() int { return int(b.stalling.Load()) }

func (b *RecBackend) Name() string { return b.BName }

func (b *RecBackend) SendMetricsAsync(ctx context.Context, mm *gostatsd.MetricMap, cb gostatsd.SendCallback) {
	obs, dups := Snapshot(mm)
	b.mu.Lock()
	c := &BackendCall{Idx: len(b.Calls), Obs: obs, Dups: dups, Map: mm, At: time.Now(), cb: cb}
	b.Calls = append(b.Calls, c)
	b.mu.Unlock()
	if b.SyncGate != nil {
		b.SyncGate.Arrive(CanonObs(obs), c)
	}
	var stallSync, stallCb time.Duration
	if b.Stall != nil {
		stallSync, stallCb = b.Stall(c.Idx)
	}
	if stallSync > 0 {
		b.stalling.Add(1)
		time.Sleep(stallSync)
		b.stalling.Add(-1)
	}
	go func() {
		if stallCb > 0 {
			time.Sleep(stallCb)
		}
		if b.CbGate != nil {
			b.CbGate.Arrive(CanonObs(obs), c)
		}
		b.mu.Lock()
		c.Done = true
		b.mu.Unlock()
		cb(nil)
	}()
}

func (b *RecBackend) SendEvent(ctx context.Context, ev *gostatsd.Event) error {
	cp := *ev
	cp.Tags = append(gostatsd.Tags(nil), ev.Tags...)
	b.mu.Lock()
	b.Events = append(b.Events, &cp)
	b.mu.Unlock()
	if b.EvGate != nil {
		b.EvGate.Arrive(ev.Title, &cp)
	}
	return nil
}

func (b *RecBackend) NCalls() int { b.mu.Lock(); defer b.mu.Unlock(); return len(b.Calls) }
func (b *RecBackend) Call(i int) *BackendCall {
	b.mu.Lock()
	defer b.mu.Unlock()
	return b.Calls[i]
}
func (b *RecBackend) NEvents() int { b.mu.Lock(); defer b.mu.Unlock(); return len(b.Events) }

// ---------------------------------------------------------------------------------------------
// W1

type W1Config struct {
	Readers, Parsers, Workers, Queue, BatchSize int
	MaxConcurrentEvents                         int
	Flush                                       time.Duration
	FlushOffset                                 time.Duration
	FlushAligned                                bool
	Namespace                                   string
	IgnoreHost                                  bool
	ExpCounter, ExpGauge, ExpSet, ExpTimer      time.Duration
	Percent                                     []float64
	Disabled                                    gostatsd.TimerSubtypes
	HistLimit                                   uint32
	DefaultTags                                 gostatsd.Tags
	Backends                                    []gostatsd.Backend
	Cache                                       gostatsd.CachedInstances
	Viper                                       *viper.Viper
	StatserType                                 string
	Runnables                                   []gostatsd.Runnable
}

type W1 struct {
	Cfg    W1Config
	Sock   *SimSocket
	cancel context.CancelFunc
	done   chan error
	nextID int
}

// StartW1 starts the real server (statsd.Server.RunWithCustomSocket) inside the current bubble.
func StartW1(cfg W1Config) *W1 {
	if cfg.Viper == nil {
		cfg.Viper = viper.New()
	}
	if cfg.StatserType == "" {
		cfg.StatserType = gostatsd.StatserNull
	}
	if cfg.MaxConcurrentEvents == 0 {
		cfg.MaxConcurrentEvents = 2
	}
	w := &W1{Cfg: cfg, Sock: NewSimSocket(), done: make(chan error, 1)}
	s := &statsd.Server{
		Backends:              cfg.Backends,
		Runnables:             cfg.Runnables,
		CachedInstances:       cfg.Cache,
		DefaultTags:           cfg.DefaultTags,
		ExpiryIntervalCounter: cfg.ExpCounter,
		ExpiryIntervalGauge:   cfg.ExpGauge,
		ExpiryIntervalSet:     cfg.ExpSet,
		ExpiryIntervalTimer:   cfg.ExpTimer,
		FlushInterval:         cfg.Flush,
		FlushOffset:           cfg.FlushOffset,
		FlushAligned:          cfg.FlushAligned,
		MaxReaders:            cfg.Readers,
		MaxParsers:            cfg.Parsers,
		MaxWorkers:            cfg.Workers,
		MaxQueueSize:          cfg.Queue,
		MaxConcurrentEvents:   cfg.MaxConcurrentEvents,
		Namespace:             cfg.Namespace,
		StatserType:           cfg.StatserType,
		PercentThreshold:      cfg.Percent,
		IgnoreHost:            cfg.IgnoreHost,
		ReceiveBatchSize:      cfg.BatchSize,
		DisabledSubTypes:      cfg.Disabled,
		HistogramLimit:        cfg.HistLimit,
		ServerMode:            "standalone",
		Hostname:              "simhost",
		DisableInternalEvents: true,
		Viper:                 cfg.Viper,
	}
	ctx, cancel := context.WithCancel(context.Background())
	w.cancel = cancel
	go func() {
		w.done <- s.RunWithCustomSocket(ctx, func() (net.PacketConn, error) { return w.Sock, nil })
	}()
	return w
}

// Stop cancels the server and waits until RunWithCustomSocket has returned.
func (w *W1) Stop() {
	w.cancel()
	<-w.done
}

// StopWithin cancels the server and waits at most d of simulated time for RunWithCustomSocket to
// return (tickers inside the server keep the bubble from ever being reported as deadlocked, so a
// shutdown that hangs on a missing callback must be bounded in simulated time).
func (w *W1) StopWithin(d time.Duration) bool {
	w.cancel()
	select {
	case <-w.done:
		return true
	case <-time.After(d):
		return false
	}
}

// Send delivers one datagram from client c to a parked reader; reports false if none is parked.
func (w *W1) Send(c int, payload []byte) (int, bool) {
	if w.Sock.Waiting() == 0 {
		return 0, false
	}
	w.nextID++
	w.Sock.Deliver(&Dgram{ID: w.nextID, Payload: payload, Addr: ClientAddr(c)})
	return w.nextID, true
}

// SendBurst delivers several datagrams to one parked reader as a single batch (hook H5).
func (w *W1) SendBurst(clients []int, payloads [][]byte) bool {
	if w.Sock.Waiting() == 0 {
		return false
	}
	var ds []*Dgram
	for i, p := range payloads {
		w.nextID++
		ds = append(ds, &Dgram{ID: w.nextID, Payload: p, Addr: ClientAddr(clients[i])})
	}
	w.Sock.DeliverBurst(ds)
	return true
}
