package verifsim

// C16 — each backend flush request completes exactly once under any transport fault.
// World W6 driven by the real server (receiver, parsers, aggregators, MetricFlusher) with one real
// bundled backend attached to a simulated transport whose per-attempt outcome is the scheduler's.

import (
	"context"
	"crypto/sha256"
	"encoding/hex"
	"errors"
	"fmt"
	"net"
	"net/http"
	"os"
	"sort"
	"strings"
	"sync"
	"sync/atomic"
	"time"

	"github.com/atlassian/gostatsd"
)

var dbgHook func(kind string, r *HTTPReq)

func init() { register("C16", func() Property { return c16{} }) }

type c16 struct{}

func (c16) ID() string { return "C16" }

type cbCall struct {
	startStep, endStep int64
	n                  int
	startAt            time.Time
	endAt              time.Time
	cbs                int
	errs               []error
	series             int
}

// cbBackend observes the SendCallback of every SendMetricsAsync call at the Backend interface.
type cbBackend struct {
	inner gostatsd.Backend
	e     *Env
	mu    sync.Mutex
	calls []*cbCall
	step  atomic.Int64 // the driver's current step number
}

func (b *cbBackend) Name() string { return b.inner.Name() }
func (b *cbBackend) SendEvent(ctx context.Context, ev *gostatsd.Event) error {
	return b.inner.SendEvent(ctx, ev)
}
func (b *cbBackend) SendMetricsAsync(ctx context.Context, mm *gostatsd.MetricMap, cb gostatsd.SendCallback) {
	obs, _ := Snapshot(mm)
	b.mu.Lock()
	c := &cbCall{n: len(b.calls), startAt: time.Now(), series: len(obs), startStep: b.step.Load()}
	b.calls = append(b.calls, c)
	b.mu.Unlock()
	b.inner.SendMetricsAsync(ctx, mm, func(errs []error) {
		b.mu.Lock()
		c.cbs++
		first := c.cbs == 1
		if first {
			c.endAt = time.Now()
			c.endStep = b.step.Load()
			for _, err := range errs {
				if err != nil {
					c.errs = append(c.errs, err)
				}
			}
		}
		b.mu.Unlock()
		if !first {
			// forwarding it would panic the flusher's WaitGroup and kill the process; report instead
			b.e.Report("C16/callback-twice", "backend %s: completion callback of flush request %d invoked a second time", b.inner.Name(), c.n)
			return
		}
		cb(errs)
	})
}
func (b *cbBackend) snapshot() []cbCall {
	b.mu.Lock()
	defer b.mu.Unlock()
	out := make([]cbCall, len(b.calls))
	for i, c := range b.calls {
		out[i] = *c
	}
	return out
}

var errWriteFailed = errors.New("write: broken pipe (simulated)")

func (c16) Run(e *Env) {
	e.ProbeDecl("kind-http", "kind-conn", "kind-cloudwatch", "kind-none", "http-retry", "lost-op-attributed-to-request", "http-client-timeout", "http-429-retry-after", "dial-refused", "write-error", "short-write",
		"streams-queued-on-sender", "cancel-mid-flush", "cloudwatch-error", "several-batches-per-flush", "empty-flush", "second-stream-while-reconnecting", "siege", "retries-disabled", "connection-rotation-after-100-streams", "two-backends")
	kind := BackendKinds[e.Draw(len(BackendKinds))]
	spec := BackendSpec{Kind: kind, BatchSize: []int{0, 1, 2, 3, 21}[e.Draw(5)], Compress: e.Bool(), MaxRequests: e.Range(1, 4), FlushInterval: time.Second}
	spec.RetryWindow = []time.Duration{0, 2 * time.Second, 5 * time.Second, -1}[e.Draw(4)]
	if spec.RetryWindow < 0 {
		// -1 = retries disabled; only the backends whose configuration accepts it
		if kind == "datadog" || strings.HasPrefix(kind, "influxdb") || strings.HasPrefix(kind, "newrelic") {
			e.Probe("retries-disabled")
		} else {
			spec.RetryWindow = 0
		}
	}
	fab, conns, cw := NewFabric(), NewConnSim(), NewCWSim()
	// request bodies are not byte-stable across executions (series order comes from Go map walks):
	// identify a body by its decoded, sorted content
	fab.KeyFn = func(r *HTTPReq) string {
		if dbgHook != nil {
			dbgHook(kind, r)
		}
		pts, err := DecodeHTTP(kind, r)
		if err != nil {
			return fmt.Sprintf("undecodable-%d", len(r.Body))
		}
		lines := make([]string, len(pts))
		for i, p := range pts {
			lines[i] = fmt.Sprintf("%s|%v|%s|%v|%s|%s|%s", p.Name, p.Tags, p.Host, p.Value, p.Type, p.Field, p.Str)
		}
		sort.Strings(lines)
		h := sha256.Sum256([]byte(strings.Join(lines, "\n")))
		return hex.EncodeToString(h[:6])
	}
	bb, err := BuildBackend(spec, fab, conns, cw)
	if err != nil {
		e.Failf("C16/harness", "BuildBackend(%+v): %v", spec, err)
	}
	e.Probe("kind-" + bb.Transport)
	unstableConn := false
	if spec.BatchSize > 1 && (strings.HasPrefix(kind, "influxdb") || strings.HasPrefix(kind, "otlp")) {
		// which series share a request is decided by Go map walks inside the backend
		e.Unstable("batch-composition-follows-map-order")
	}
	faults := !e.Chance(1, 4)
	wb := &cbBackend{inner: bb.Backend, e: e}
	cfg := W1Config{Readers: 1, Parsers: 1, Workers: e.Range(1, 3), Queue: 8, BatchSize: 1, Flush: 1300 * time.Millisecond, // not a divisor of the 10 s client timeout: a request issued at a tick never times out exactly at a later tick

		ExpCounter: time.Hour, ExpGauge: time.Hour, ExpSet: time.Hour, ExpTimer: time.Hour, Percent: []float64{90},
		HistLimit: []uint32{0, 2, 10}[e.Draw(3)],
		Backends:  []gostatsd.Backend{wb}}
	if e.Chance(1, 3) {
		// a second backend after the one under test: the flusher hands every flush to both
		cfg.Backends = append(cfg.Backends, &RecBackend{BName: "second"})
		e.Probe("two-backends")
	}
	if bb.Run != nil {
		cfg.Runnables = []gostatsd.Runnable{bb.Run}
	}
	w := StartW1(cfg)
	stopped := false
	openAll := func() {
		fab.Gate.Open(nil)
		conns.DialGate.Open(nil)
		conns.WriteGate.Open(nil)
		cw.Gate.Open(nil)
	}
	defer func() {
		if bb.ClientTimeout > 0 {
			time.Sleep(bb.ClientTimeout + time.Second) // net/http per-request timer goroutines (unclosed response bodies)
		}
	}()
	defer func() {
		if !stopped {
			w.cancel()
			openAll()
			if !w.StopWithin(90 * time.Second) {
				e.Report("C16/shutdown-wedged", "%s: the server did not stop within 90 simulated seconds of cancellation with every transport refusing at once (a flush request never completed)", kind)
				panic(abortRun{}) // leaves goroutines behind; the run is over anyway
			}
		}
	}()
	e.Event("cfg kind=%s batch=%d compress=%v maxreq=%d window=%v workers=%d faults=%v", kind, spec.BatchSize, spec.Compress, spec.MaxRequests, spec.RetryWindow, cfg.Workers, faults)
	e.Settle()
	t0 := time.Now()
	nextTick := func() time.Duration {
		el := time.Since(t0)
		return (el/cfg.Flush+1)*cfg.Flush - el
	}
	send := func(n int) {
		for i := 0; i < n; i++ {
			e.Settle()
			if w.Sock.Waiting() == 0 {
				return
			}
			var lines []string
			for j, m := 0, e.Range(1, 4); j < m; j++ {
				s := e.Draw(8)
				lines = append(lines, []string{
					fmt.Sprintf("c16.count%d:%d|c|#env:prod", s, 1+e.Draw(9)),
					fmt.Sprintf("c16.gauge%d:%d.5|g", s, e.Draw(100)),
					fmt.Sprintf("c16.timer%d:%d|ms|#az:a", s, e.Draw(1000)),
					fmt.Sprintf("c16.set%d:u%d|s", s, e.Draw(5)),
					fmt.Sprintf("c16.hist%d:%d|ms|#gsd_histogram:10_100_500,az:b", s, e.Draw(1000)),
				}[e.Draw(5)])
			}
			w.Send(0, []byte(joinStrings(lines)))
		}
	}
	send(e.Range(2, 5))
	// time passes in slices; in the fault-free class nothing may sit at a transport gate while it does
	// (a request held past the 10 s client timeout IS a fault: a slow response)
	httpOK := map[string]bool{} // path|bodyhash -> some attempt succeeded
	okStatus := bb.OKStatus
	var okRelease func() bool
	okRelease = func() bool {
		any := false
		for _, p := range fab.Gate.Parked() {
			r := p.Arg.(*HTTPReq)
			httpOK[r.Path+"|"+r.Canon] = true
			fab.Gate.Release(p, HTTPOutcome{Kind: "status", Status: okStatus})
			any = true
			e.Settle()
		}
		for _, p := range conns.DialGate.Parked() {
			conns.DialGate.Release(p, ConnOutcome{})
			any = true
			e.Settle()
		}
		for _, p := range conns.WriteGate.Parked() {
			conns.WriteGate.Release(p, WriteOutcome{N: -1})
			any = true
			e.Settle()
		}
		for _, p := range cw.Gate.Parked() {
			cw.Gate.Release(p, CWOutcome{})
			any = true
			e.Settle()
		}
		return any
	}
	pass := func(d time.Duration) {
		// the driver only ever acts at instants congruent to 137us modulo 1ms, so that timers armed by
		// gostatsd in reaction to its actions never coincide with flush ticks (same-instant timers on
		// different goroutines are ordered by the runtime, not by the tape)
		target := time.Since(t0) + d
		adj := 137*time.Microsecond - target%time.Millisecond
		if adj < 0 {
			adj += time.Millisecond
		}
		d += adj
		for d > 0 {
			sl := d
			if !faults && sl > 200*time.Millisecond {
				sl = 200 * time.Millisecond
			}
			d -= sl
			time.Sleep(sl)
			if !faults {
				e.Settle()
				for okRelease() {
				}
			}
		}
	}

	type lostOp struct {
		at   time.Time
		step int64 // the driver step at which the scheduler made the operation fail
		what string
	}
	reqStep := map[int]int64{} // request number -> step at which its outcome was decided
	var lost []lostOp          // transport operations that definitively lost data
	httpLast := map[string]*HTTPReq{}
	nFaults := 0
	fault := func(k string) {
		nFaults++
		e.Fault(k)
	}
	reqSeen := 0
	seeReqs := func() {
		for i := 0; i < fab.NReqs(); i++ {
			// a request the upstream accepted must have been a payload it can read: an earlier failed
			// flush must not leave anything behind that corrupts a later one
			if r := fab.Req(i); r.Outcome == "status" && r.Status == okStatus && strings.HasPrefix(r.Canon, "undecodable-") && r.Path == bb.Path {
				e.Failf("C16/accepted-payload-not-valid", "%s: request %d (%d bytes, attempt %d) was accepted by the upstream, but it is not a payload of this protocol: what the flush wanted to deliver did not arrive although its callback may report success", kind, r.N, len(r.Body), r.Attempt)
			}
		}
		for ; reqSeen < fab.NReqs(); reqSeen++ {
			r := fab.Req(reqSeen)
			if r.Attempt > 1 {
				e.Probe("http-retry")
			}
			httpLast[r.Path+"|"+r.Canon] = r
		}
	}

	// invariants over the calls seen so far
	checkCalls := func() {
		for _, c := range wb.snapshot() {
			if c.cbs > 1 {
				e.Failf("C16/callback-twice", "flush request %d of %s got %d callbacks", c.n, kind, c.cbs)
			}
		}
	}

	nSteps := e.Range(4, 50*e.Depth())
	cancelled := false
	if faults && bb.Transport == "conn" && e.Chance(1, 15) {
		// long-lived sender: the sender re-dials after every 100 streams on one connection, a path no
		// short run reaches. Script: the first dial is refused while a stream arrives (the sender holds
		// it across the failed dial), the connection then carries more than 100 streams, the re-dial
		// after the rotation is refused, and the server is shut down while the sender waits to retry.
		e.Probe("connection-rotation-after-100-streams")
		e.Unstable("several-shards-queue-streams-on-one-sender")
		refuseDials := func() bool {
			any := false
			for _, p := range conns.DialGate.Parked() {
				conns.DialGate.Release(p, ConnOutcome{Err: errConnRefused})
				fault("dial-refused")
				any = true
				e.Settle()
			}
			return any
		}
		e.Settle()
		refuseDials()
		send(2)
		// every dial up to the next flush tick is refused, so the sender is waiting out a failed dial
		// when the flush hands it the stream: it holds that stream across the failure
		for left := nextTick(); left > 0; left -= 50 * time.Millisecond {
			time.Sleep(50 * time.Millisecond)
			e.Settle()
			refuseDials()
		}
		time.Sleep(137 * time.Microsecond)
		e.Settle()
		e.Event("rotation phase: after the first tick: dials=%d conns=%d parked dials=%d writes=%d calls=%d", conns.NDials(), conns.NConns(), conns.DialGate.Len(), conns.WriteGate.Len(), len(wb.snapshot()))
		done := func() int {
			n := 0
			for _, c := range wb.snapshot() {
				if c.cbs > 0 {
					n++
				}
			}
			return n
		}
		rotated := false
		for i := 0; i < 400 && !rotated; i++ {
			// writes succeed; the first connection is granted; the dial that follows the rotation is refused
			for progressed := true; progressed; {
				progressed = false
				for _, p := range conns.WriteGate.Parked() {
					conns.WriteGate.Release(p, WriteOutcome{N: -1})
					progressed = true
					e.Settle()
				}
				for _, p := range conns.DialGate.Parked() {
					if conns.NConns() == 0 {
						conns.DialGate.Release(p, ConnOutcome{})
					} else {
						conns.DialGate.Release(p, ConnOutcome{Err: errConnRefused})
						fault("dial-refused")
						rotated = true
					}
					progressed = true
					e.Settle()
				}
			}
			checkCalls()
			if rotated {
				break
			}
			send(1)
			time.Sleep(nextTick() + 137*time.Microsecond)
			e.Settle()
		}
		if !rotated {
			e.Failf("C16/harness", "rotation phase: %d flush requests completed on one connection and the sender never re-dialled", done())
		}
		e.Event("rotation phase: %d flush requests completed; re-dial refused; shutting down (dials=%d conns=%d)", done(), conns.NDials(), conns.NConns())
		cancelled = true
	}
	for step := 0; step < nSteps && !cancelled; step++ {
		e.Settle() // consequences of the previous step's action still carry its step number
		wb.step.Store(int64(step) + 1)
		seeReqs()
		checkCalls()
		e.Check()
		reqP, dialP, writeP, cwP := fab.Gate.Parked(), conns.DialGate.Parked(), conns.WriteGate.Parked(), cw.Gate.Parked()
		pendingCalls := 0
		for _, c := range wb.snapshot() {
			if c.cbs == 0 {
				pendingCalls++
			}
		}
		if bb.Transport == "cloudwatch" && len(cwP) >= 2 {
			e.Unstable("concurrent-put-metric-data-calls-numbered-by-arrival")
		}
		if bb.Transport == "conn" && pendingCalls >= 2 {
			e.Probe("streams-queued-on-sender")
			e.Overlap = true
			if !unstableConn {
				// the shards of one flush hand their streams to the single sender concurrently; the
				// order in which they are written to the connection is the runtime's
				unstableConn = true
				e.Unstable("several-shards-queue-streams-on-one-sender")
			}
		}
		if bb.Transport == "http" && len(reqP) >= spec.MaxRequests {
			// more batches than request slots: which batches hold the slots was decided by goroutine
			// start order inside the backend
			e.Unstable("http-request-slots-saturated")
		}
		if len(reqP) >= 2 || len(writeP) >= 2 || len(cwP) >= 2 {
			e.Probe("several-batches-per-flush")
		}
		if os.Getenv("C16_DEBUG") != "" {
			var ks []string
			for _, p := range reqP {
				ks = append(ks, p.Key)
			}
			e.Event("DEBUG parked=%v pendingCalls=%d", ks, pendingCalls)
		}
		e.State("req=%d dial=%d write=%d cw=%d pending=%d", len(reqP), len(dialP), len(writeP), len(cwP), pendingCalls)
		wCancel := 0
		if faults && pendingCalls > 0 {
			wCancel = 1
		}
		switch e.Weighted("c16", []int{2, 3, 2, 6 * len(reqP), 6 * len(dialP), 6 * len(writeP), 6 * len(cwP), wCancel}) {
		case 0:
			send(1)
			e.Event("more data")
		case 1:
			d := nextTick()
			e.Event("to flush tick %v", d)
			pass(d)
		case 2:
			d := []time.Duration{100 * time.Millisecond, 600 * time.Millisecond, 1100 * time.Millisecond, 3 * time.Second, 11 * time.Second}[e.Draw(5)]
			if faults && d > 10*time.Second {
				fault("http-hold-until-client-timeout") // whatever is or gets parked during this advance times out
				e.Probe("http-client-timeout")
			}
			e.Event("advance %v", d)
			pass(d)
		case 3:
			p := reqP[e.Choose("req", len(reqP))]
			r := p.Arg.(*HTTPReq)
			k := r.Path + "|" + r.Canon
			out := HTTPOutcome{Kind: "status", Status: okStatus}
			if faults {
				switch e.Weighted("http-outcome", []int{5, 1, 2, 1, 2}) {
				case 1:
					out.Status = []int{400, 403, 413, 300, 304, 305}[e.Draw(6)] // incl. 3xx answers a client does not follow (an intermediary): not delivered either
					fault("http-4xx")
				case 2:
					out.Status = []int{500, 502, 503}[e.Draw(3)]
					fault("http-5xx")
				case 3:
					out.Status = 429
					out.Header = http.Header{"Retry-After": {[]string{"1", "2", "x", "-1", "100"}[e.Draw(5)]}}
					fault("http-429")
					e.Probe("http-429-retry-after")
				case 4:
					out = HTTPOutcome{Kind: "conn-error"}
					fault("http-conn-error")
				}
			}
			if out.Kind == "status" && out.Status == okStatus {
				httpOK[k] = true
			}
			e.Event("request %s%s %s attempt %d -> %s %d", r.Host, r.Path, r.Canon, r.Attempt, out.Kind, out.Status)
			reqStep[r.N] = wb.step.Load()
			fab.Gate.Release(p, out)
		case 4:
			p := dialP[e.Choose("dial", len(dialP))]
			o := ConnOutcome{}
			if faults && e.Chance(1, 3) {
				o.Err = errConnRefused
				fault("dial-refused")
				e.Probe("dial-refused")
				if pendingCalls >= 2 {
					e.Probe("second-stream-while-reconnecting")
				}
			}
			e.Event("%s -> %v", p.Key, o.Err)
			conns.DialGate.Release(p, o)
		case 5:
			p := writeP[e.Choose("write", len(writeP))]
			cwr := p.Arg.(*ConnWrite)
			o := WriteOutcome{N: -1}
			if faults {
				switch e.Weighted("write-outcome", []int{4, 2, 1}) {
				case 1:
					o = WriteOutcome{N: 0, Err: errWriteFailed}
					if e.Chance(1, 3) {
						// the peer stopped reading and the write deadline ran out: an error of the timeout class
						o.Err = &net.OpError{Op: "write", Net: "tcp", Err: os.ErrDeadlineExceeded}
						e.Probe("write-timeout")
					}
					fault("write-error")
					e.Probe("write-error")
					lost = append(lost, lostOp{cwr.At, wb.step.Load(), "write"})
				case 2:
					o = WriteOutcome{N: len(cwr.Data) / 2}
					fault("short-write")
					e.Probe("short-write")
					lost = append(lost, lostOp{cwr.At, wb.step.Load(), "short write"})
				}
			}
			e.Event("write#%d#%d (%d bytes) -> n=%d err=%v", cwr.Conn.ID, cwr.Seq, len(cwr.Data), o.N, o.Err)
			conns.WriteGate.Release(p, o)
		case 6:
			p := cwP[e.Choose("cw", len(cwP))]
			o := CWOutcome{}
			if faults && e.Chance(1, 3) {
				o.Err = errCWUnavailable
				fault("cloudwatch-error")
				e.Probe("cloudwatch-error")
				lost = append(lost, lostOp{time.Now(), wb.step.Load(), "PutMetricData"})
			}
			e.Event("%s -> %v", p.Key, o.Err)
			cw.Gate.Release(p, o)
		case 7:
			e.Event("cancel")
			fault("cancel-mid-flush")
			e.Probe("cancel-mid-flush")
			cancelled = true
		}
	}

	if cancelled {
		// shutdown in the middle of a flush: every outstanding request must still complete exactly
		// once, and the server must stop. Connections in progress are reset the way a closing
		// network would.
		before := wb.snapshot()
		w.cancel()
		openAll()
		stopped = true
		if !w.StopWithin(90 * time.Second) {
			var desc []string
			for _, c := range wb.snapshot() {
				if c.cbs == 0 {
					desc = append(desc, fmt.Sprintf("#%d started +%v", c.n, c.startAt.Sub(t0)))
				}
			}
			e.Failf("C16/shutdown-wedged", "%s: the server did not stop within 90 simulated seconds of a mid-flush cancellation (transports reset at once); flush requests without callback: %v", kind, desc)
		}
		e.Settle()
		for _, c := range wb.snapshot() {
			if c.cbs != 1 {
				e.Failf("C16/callback-count-after-cancel", "%s: flush request %d (started +%v) got %d callbacks after cancellation", kind, c.n, c.startAt.Sub(t0), c.cbs)
			}
		}
		_ = before // (whether a cancelled request reports an error is not prescribed: cancellation is not a transport failure)
		return
	}

	// ---- siege (HTTP, a third of the fault runs): the upstream answers every attempt with the same
	// failure for longer than the retry window; every flush request pending at its start must complete
	// (with an error) when the window ends - "for HTTP backends when delivery succeeds or their retry window ends".
	if faults && bb.Transport == "http" && spec.BatchSize == 0 && e.Chance(1, 2) {
		e.Settle()
		wb.step.Store(int64(nSteps) + 5)
		mode := e.Draw(4)
		window := spec.RetryWindow
		if window == 0 {
			window = 15 * time.Second
		}
		if window < 0 {
			window = 0 // retries disabled: the first failed attempt ends the request
		}
		siegeStart := time.Now()
		pendingAtStart := map[int]bool{}
		for _, c := range wb.snapshot() {
			if c.cbs == 0 {
				pendingAtStart[c.n] = true
			}
		}
		// default batch size: one request per flush request; requests queue for the request slots and
		// each gets its own retry window once it holds a slot
		rounds := (len(pendingAtStart) + spec.MaxRequests - 1) / spec.MaxRequests
		if rounds < 1 {
			rounds = 1
		}
		// a request gives up at its first failed attempt after the window has elapsed; the back-off
		// interval before that attempt can be as long as the window itself, plus one client timeout
		siegeLen := time.Duration(rounds)*(2*window+12*time.Second) + 10*time.Second
		e.Event("siege mode=%d window=%v pending=%d", mode, window, len(pendingAtStart))
		for time.Since(siegeStart) < siegeLen {
			e.Settle()
			for _, p := range fab.Gate.Parked() {
				var out HTTPOutcome
				switch mode {
				case 0:
					out = HTTPOutcome{Kind: "status", Status: 429, Header: http.Header{"Retry-After": {"1"}}}
				case 1:
					out = HTTPOutcome{Kind: "status", Status: 503}
				case 2:
					out = HTTPOutcome{Kind: "conn-error"}
				case 3:
					out = HTTPOutcome{Kind: "status", Status: 429, Header: http.Header{"Retry-After": {"3"}}}
				}
				nFaults++
				e.Fault("siege-" + []string{"429-retry-after-1", "503", "conn-error", "429-retry-after-3"}[mode])
				reqStep[p.Arg.(*HTTPReq).N] = wb.step.Load()
				fab.Gate.Release(p, out)
				e.Settle()
			}
			pass(300 * time.Millisecond)
		}
		e.Settle()
		for _, c := range wb.snapshot() {
			if pendingAtStart[c.n] && c.cbs == 0 {
				e.Failf("C16/retry-window-not-honoured", "%s: flush request %d was pending when the upstream started failing every attempt; %v later (retry window %v) it still has no completion callback", kind, c.n, time.Since(siegeStart), window)
			}
		}
		e.Probe("siege")
	}

	// ---- settle: faults stop; everything succeeds at once
	e.Event("settle")
	e.Settle()
	wb.step.Store(int64(nSteps) + 10)
	settleStart := time.Now()
	// bound: retry window (default 15 s) + one client timeout + a few flush intervals
	bound := 40 * time.Second
	callsAtSettle := len(wb.snapshot())
	for {
		e.Settle()
		seeReqs()
		checkCalls()
		e.Check()
		if okRelease() {
			continue
		}
		pending := 0
		for _, c := range wb.snapshot()[:callsAtSettle] {
			if c.cbs == 0 {
				pending++
			}
		}
		if pending == 0 {
			break
		}
		if time.Since(settleStart) > bound {
			var desc []string
			for _, c := range wb.snapshot()[:callsAtSettle] {
				if c.cbs == 0 {
					desc = append(desc, fmt.Sprintf("#%d started +%v", c.n, c.startAt.Sub(t0)))
				}
			}
			e.Failf("C16/callback-missing", "%s: %v after the last fault, with every connection, write and request succeeding at once, flush requests %v still have no completion callback", kind, time.Since(settleStart), desc)
		}
		time.Sleep(250 * time.Millisecond)
	}
	// the following flushes are attempted and, with a healthy transport, complete without error
	send(1)
	target := len(wb.snapshot()) + 2*cfg.Workers
	for i := 0; len(wb.snapshot()) < target; i++ {
		if i > 40 {
			e.Failf("C16/flusher-stopped", "%s: no further flush requests are issued after a failed flush (have %d, want %d)", kind, len(wb.snapshot()), target)
		}
		time.Sleep(250 * time.Millisecond)
		e.Settle()
		for okRelease() {
		}
	}
	for i := 0; i < 80; i++ {
		e.Settle()
		for okRelease() {
		}
		done := true
		for _, c := range wb.snapshot()[:target] {
			if c.cbs == 0 {
				done = false
			}
		}
		if done {
			break
		}
		time.Sleep(250 * time.Millisecond)
	}
	seeReqs()
	calls := wb.snapshot()
	for _, c := range calls[:target] {
		if c.cbs != 1 {
			e.Failf("C16/callback-missing", "%s: flush request %d issued after the faults stopped got %d callbacks", kind, c.n, c.cbs)
		}
	}
	for _, c := range calls[target-2*cfg.Workers : target] {
		if len(c.errs) > 0 && c.startAt.After(settleStart.Add(bound)) {
			e.Failf("C16/healthy-flush-reports-error", "%s: flush request %d ran entirely on a healthy transport yet reported %v", kind, c.n, c.errs)
		}
	}
	for i := 0; i < fab.NReqs(); i++ {
		if fab.Req(i).Outcome == "client-aborted" {
			// a request left unanswered past the client's timeout while time was passed in small steps
			fault("http-hold-until-client-timeout")
			break
		}
	}
	if nFaults == 0 {
		for _, c := range calls {
			if len(c.errs) > 0 {
				e.Failf("C16/error-without-fault", "%s: no transport fault was injected in this run, yet flush request %d reported %v", kind, c.n, c.errs)
			}
		}
	}
	// single-shard runs: a transport operation that definitively lost data falls into exactly one
	// flush request's lifetime; that request must have reported an error
	if cfg.Workers == 1 {
		// HTTP bodies that never succeeded
		for k, r := range httpLast {
			if st, decided := reqStep[r.N]; !httpOK[k] && decided {
				lost = append(lost, lostOp{r.At, st, "body " + k + " never accepted"})
			}
		}
		// ... and bodies whose last attempt was never answered (the client gave up waiting): nobody
		// decided that at a step, so it is attributed by its instant - flush requests of one shard do
		// not overlap in time
		for k, r := range httpLast {
			if !httpOK[k] && r.Outcome == "client-aborted" {
				for _, c := range calls {
					if c.cbs == 1 && c.startAt.Before(r.EndAt) && !r.EndAt.After(c.endAt) && len(c.errs) == 0 {
						e.Failf("C16/lost-data-without-error", "%s: the last attempt for body %s was never answered and timed out at +%v, during flush request %d (+%v .. +%v), whose callback carried no error", kind, k, r.EndAt.Sub(t0), c.n, c.startAt.Sub(t0), c.endAt.Sub(t0))
					}
				}
			}
		}
		for _, l := range lost {
			for _, c := range calls {
				if c.cbs == 1 && c.startStep < l.step && l.step <= c.endStep {
					if len(c.errs) == 0 {
						var all []string
						for _, cc := range calls {
							all = append(all, fmt.Sprintf("#%d steps %d..%d +%v..+%v errs=%d", cc.n, cc.startStep, cc.endStep, cc.startAt.Sub(t0), cc.endAt.Sub(t0), len(cc.errs)))
						}
						e.Failf("C16/lost-data-without-error", "%s: %s at +%v (decided at step %d) lost data of flush request %d (+%v .. +%v), whose callback carried no error; calls: %v", kind, l.what, l.at.Sub(t0), l.step, c.n, c.startAt.Sub(t0), c.endAt.Sub(t0), all)
					}
					e.Probe("lost-op-attributed-to-request")
				}
			}
		}
	}
	for _, c := range calls {
		if c.series == 0 {
			e.Probe("empty-flush")
		}
	}
	e.Note["calls"] = len(calls)
}

func joinStrings(l []string) string {
	out := ""
	for i, s := range l {
		if i > 0 {
			out += "\n"
		}
		out += s
	}
	return out
}
