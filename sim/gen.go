package verifsim

// gen.go: workload generators shared by several properties. Everything is drawn from the tape.

import (
	"fmt"
	"strconv"
	"strings"
)

// Series is one series a simulated client may send datapoints for.
type Series struct {
	Type string // c ms h g s
	Name string
	Tags []string
	Pow2 bool // counter whose increments are distinct powers of two (bit-attributable)
	n    int  // datapoints generated so far
}

var seriesNames = []string{"req", "a.b", "lat_ms", "q-depth", "x", "users.uniq", "cpu.load", "z9"}
var tagPool = []string{"env:prod", "az:a", "k", "role:web", "v:1.2", "region:us-east-1"}

// GenSeries draws n distinct series (distinct by type+name+tags).
func GenSeries(e *Env, n int, types []string) []*Series {
	var out []*Series
	seen := map[string]bool{}
	for len(out) < n {
		s := &Series{Type: types[e.Draw(len(types))], Name: seriesNames[e.Draw(len(seriesNames))]}
		nt := e.Draw(5)
		used := map[int]bool{}
		for i := 0; i < nt; i++ {
			t := e.Draw(len(tagPool))
			if used[t] {
				continue
			}
			used[t] = true
			s.Tags = append(s.Tags, tagPool[t])
		}
		if s.Type == "c" {
			s.Pow2 = e.Bool()
		}
		k := string(KeyOf(DP{Type: s.Type}.Kind(), s.Name, s.Tags, ""))
		if seen[k] {
			// make it distinct deterministically
			s.Name = fmt.Sprintf("%s%d", s.Name, len(out))
			k = string(KeyOf(DP{Type: s.Type}.Kind(), s.Name, s.Tags, ""))
		}
		seen[k] = true
		out = append(out, s)
	}
	return out
}

var rates = []string{"", "", "1", "0.5", "0.25", "0.1", "0.3", "0.125"}

func decimal(e *Env, allowNeg bool) string {
	whole := e.Draw(1000)
	s := strconv.Itoa(whole)
	switch e.Draw(4) {
	case 1:
		s += "." + strconv.Itoa(e.Draw(10))
	case 2:
		s += "." + fmt.Sprintf("%03d", e.Draw(1000))
	case 3:
		s = strconv.Itoa(e.Draw(1000000)) + "." + fmt.Sprintf("%06d", e.Draw(1000000))
	}
	if e.Chance(1, 12) {
		// large offset, small spread (epoch-like values): exposes cancellation in one-pass formulas
		s = "1000000" + fmt.Sprintf("%03d", e.Draw(4)) + "." + strconv.Itoa(e.Draw(10))
	}
	if allowNeg && e.Chance(1, 5) {
		s = "-" + s
	}
	return s
}

// GenDP draws one datapoint for series s sent by client source.
func GenDP(e *Env, s *Series, source string, id int) DP {
	d := DP{Type: s.Type, Name: s.Name, Tags: s.Tags, Source: source, ID: id}
	if len(s.Tags) > 1 && e.Chance(1, 3) {
		// clients need not send the tags of a series in the same order every time
		t := append([]string(nil), s.Tags...)
		for i := len(t) - 1; i > 0; i-- {
			j := e.Draw(i + 1)
			t[i], t[j] = t[j], t[i]
		}
		d.Tags = t
	}
	switch s.Type {
	case "c":
		if s.Pow2 {
			d.ValStr = strconv.FormatInt(1<<uint(s.n%40), 10)
		} else {
			d.ValStr = decimal(e, true)
			d.Rate = rates[e.Draw(len(rates))]
		}
	case "ms", "h":
		d.ValStr = decimal(e, true)
		d.Rate = rates[e.Draw(len(rates))]
	case "g":
		d.ValStr = decimal(e, false) // a leading sign would make it a delta in some dialects; keep plain
	case "s":
		d.ValStr = fmt.Sprintf("m%d", e.Draw(6))
	}
	s.n++
	return d
}

func joinLines(dps []DP, trailingNL bool) []byte {
	ls := make([]string, len(dps))
	for i, d := range dps {
		ls[i] = d.Line()
	}
	s := strings.Join(ls, "\n")
	if trailingNL {
		s += "\n"
	}
	return []byte(s)
}
