package verifsim

// C15 — the forwarder delivers every batch exactly once or reports it dropped.
// World W5: real HttpForwarderHandlerV2 (+ MetricConsolidator with the H1 yield sites, flush
// coordinator, cenkalti back-off on the bubble clock) -> simulated HTTP link -> real ingestion router
// used as the body decoder / upstream.

import (
	"context"
	"crypto/sha256"
	"encoding/hex"
	"fmt"
	"net/http"
	"sort"
	"strings"
	"sync"
	"sync/atomic"
	"time"
	"unicode/utf8"

	"github.com/sirupsen/logrus"
	"github.com/spf13/viper"

	"github.com/atlassian/gostatsd"
	"github.com/atlassian/gostatsd/internal/flush"
	"github.com/atlassian/gostatsd/internal/verifhook"
	"github.com/atlassian/gostatsd/pkg/stats"
	"github.com/atlassian/gostatsd/pkg/statsd"
	"github.com/atlassian/gostatsd/pkg/transport"
	"github.com/atlassian/gostatsd/pkg/web"
)

func init() { register("C15", func() Property { return c15{} }) }

type c15 struct{}

func (c15) ID() string { return "C15" }

type c15Item struct {
	id        int
	kind      string
	key       SeriesKey
	bit       int64
	value     float64
	member    string
	invoked   uint64
	returned  uint64 // 0 while the dispatch call has not returned
	body      string // hash of the body that carries it
	service   string
	dispatchN int
	offender  bool // carries a string that is not valid UTF-8 (tag, source or set member)
	rawTags   []string
	rawSource string
}

type c15Body struct {
	hash     string
	attempts []*HTTPReq
	success  bool
	firstAt  time.Time
	lastEnd  time.Time
	items    []*c15Item
	nop      bool
	event    bool
}

// decodeBody runs a request through a private instance of the real ingestion router into a
// recording handler: the body's content as the ingesting side would see it.
func decodeBody(r *HTTPReq) (map[SeriesKey]*Obs, int) {
	rec := &RecHandler{}
	srv, err := web.NewHttpServer(logrus.StandardLogger(), rec, "dec", "dec", false, false, true, false, nil, nil)
	if err != nil {
		panic(err)
	}
	f := NewFabric()
	f.Handle(r.Host, srv.Router)
	resp := f.Serve(r)
	if rec.NMaps() == 0 {
		return map[SeriesKey]*Obs{}, resp.StatusCode
	}
	return rec.MapAt(0).Obs, resp.StatusCode
}

func (c15) Run(e *Env) {
	e.ProbeDecl("dispatcher-parked-across-flush-begin", "retry-after-5xx", "retry-after-conn-error", "retry-after-lost-response", "abandoned-after-window", "abandoned-retries-off",
		"slow-response-client-timeout", "several-bodies-per-flush", "max-requests-saturated", "manual-flush", "ticker-flush", "flush-parked-after-drain", "4xx", "non-utf8-string", "header-tag-repeated", "pipelined-manual-flush", "shutdown-with-data-pending", "shutdown-with-retry-pending", "response-body-cut-after-2xx")
	slots := e.Range(1, 4)
	maxReq := e.Range(1, 4)
	concMerge := e.Range(1, 3)
	window := []time.Duration{-1, 2 * time.Second, 30 * time.Second}[e.Draw(3)]
	manual := e.Chance(1, 3)
	nDyn := e.Draw(3)
	compType := []string{"none", "zlib", "lz4"}[e.Draw(3)]
	// separate run class: some clients send strings the parser accepts but protobuf cannot carry
	nonUTF8 := e.Chance(1, 5)
	flushInterval := time.Second
	v := viper.New()
	v.Set("http-transport.api-endpoint", "http://upstream")
	v.Set("http-transport.consolidator-slots", slots)
	v.Set("http-transport.max-requests", maxReq)
	v.Set("http-transport.concurrent-merge", concMerge)
	v.Set("http-transport.compress", compType != "none")
	if compType != "none" {
		v.Set("http-transport.compression-type", compType)
	}
	v.Set("http-transport.compression-level", e.Draw(10))
	v.Set("http-transport.max-request-elapsed-time", window)
	v.Set("http-transport.flush-interval", flushInterval)
	dynNames := []string{"service", "team"}[:nDyn]
	if nDyn > 0 {
		v.Set("http-transport.dynamic-headers", dynNames)
	}
	fab := NewFabric()
	fab.KeyFn = func(r *HTTPReq) string {
		obs, _ := decodeBody(r)
		h := sha256.Sum256([]byte(CanonObs(obs) + tagsCanon(obs)))
		return hex.EncodeToString(h[:6])
	}
	pool := transport.NewTransportPool(logrus.StandardLogger(), v)
	cl, err := pool.Get("default")
	if err != nil {
		e.Failf("C15/harness", "transport pool: %v", err)
	}
	cl.Client.Transport = fab
	var fc flush.Coordinator
	if manual {
		fc = flush.NewFlushCoordinator()
		e.Probe("manual-flush")
	} else {
		e.Probe("ticker-flush")
	}
	hfh, err := statsd.NewHttpForwarderHandlerV2FromViper(logrus.StandardLogger(), v, pool, fc)
	if err != nil {
		e.Failf("C15/harness", "forwarder: %v", err)
	}
	up := &RecHandler{Env: e}
	upSrv, err := web.NewHttpServer(logrus.StandardLogger(), up, "up", "up", false, false, true, false, nil, nil)
	if err != nil {
		e.Failf("C15/harness", "upstream: %v", err)
	}
	fab.Handle("upstream", upSrv.Router)
	st := NewRecStatser()
	yg := &yieldGate{gate: NewGate("yield"), sites: map[string]bool{}}
	for _, s := range []string{"consolidator.receive.holding-slot", "consolidator.receive.before-return", "consolidator.drained", "consolidator.flush.sent-before-fill"} {
		if e.Chance(1, 2) {
			yg.sites[s] = true
		}
	}
	yg.anyObj = true
	verifhook.SetYield(yg.fn)
	ctx, cancel := context.WithCancel(stats.NewContext(context.Background(), st))
	var wg sync.WaitGroup
	wg.Add(2)
	var runReturned atomic.Bool
	go func() { defer wg.Done(); hfh.Run(ctx); runReturned.Store(true) }()
	go func() { defer wg.Done(); hfh.RunMetricsContext(ctx) }()
	nDisp := e.Range(1, 4)
	work := make([]chan func(), nDisp)
	busy := make([]bool, nDisp)
	var bmu sync.Mutex
	for i := range work {
		work[i] = make(chan func())
		wg.Add(1)
		go func(i int) {
			defer wg.Done()
			for f := range work[i] {
				f()
				bmu.Lock()
				busy[i] = false
				bmu.Unlock()
			}
		}(i)
	}
	defer wg.Wait()
	defer func() {
		for _, w := range work {
			close(w)
		}
	}()
	defer verifhook.SetYield(nil)
	defer fab.Gate.Open(nil)
	defer yg.gate.Open(nil)
	defer cancel()
	e.Event("cfg slots=%d maxreq=%d merge=%d window=%v manual=%v dyn=%v comp=%s dispatchers=%d yields=%v nonutf8=%v", slots, maxReq, concMerge, window, manual, dynNames, compType, nDisp, sortedStrKeys2(yg.sites), nonUTF8)
	e.Settle()
	// Run() begins with a synchronous empty "nop" post; the consolidator's ticker only starts once it
	// is through. Serve it straight away so that flush ticks are at t0 + k*interval.
	for _, p := range fab.Gate.Parked() {
		fab.Gate.Release(p, HTTPOutcome{Kind: "serve"})
	}
	e.Settle()
	t0 := time.Now()

	// ---- model
	var items []*c15Item
	bodies := map[string]*c15Body{}
	var bodyOrder []string
	bitOwner := map[string]*c15Item{}  // series|bit, series|value, series|member -> item
	offenders := map[string]*c15Item{} // "v<value>" / "mx<id>" -> datapoint carrying a non-UTF-8 string
	// a datapoint with a non-UTF-8 string cannot arrive byte for byte (proto3 strings are UTF-8); it is
	// recognised by its run-unique value or member, under the same type and name, with every valid
	// tag and a valid source unchanged, however the invalid bytes were rendered
	offenderFor := func(k SeriesKey, o *Obs, id string) *c15Item {
		var it *c15Item
		if strings.HasPrefix(id, "v") {
			it = offenders[id]
		} else if strings.HasPrefix(id, "mx") {
			j := 2
			for j < len(id) && id[j] >= '0' && id[j] <= '9' {
				j++
			}
			it = offenders[id[:j]]
		}
		if it == nil {
			return nil
		}
		parts := strings.SplitN(string(k), "|", 4)
		want := strings.SplitN(string(it.key), "|", 4)
		if parts[0] != want[0] || parts[1] != want[1] || len(o.Tags) != len(it.rawTags) {
			return nil
		}
		for _, t := range it.rawTags {
			if !utf8.ValidString(t) {
				continue
			}
			found := false
			for _, g := range o.Tags {
				found = found || g == t
			}
			if !found {
				return nil
			}
		}
		if utf8.ValidString(it.rawSource) && o.Source != it.rawSource {
			return nil
		}
		return it
	}
	seqBits := map[string]int{}
	reqSeen := 0
	flushBegins := []uint64{}                  // event seq at which each flush was triggered
	var flushInProgressA, waitingA atomic.Bool // manual flush goroutine running / WaitForFlush pending
	// pipelined use of the coordinator: Flush and WaitForFlush are issued independently (as by two
	// goroutines); every flush must still produce exactly one notification, none lost, none extra
	pipelined := manual && e.Chance(1, 3)
	manualFlushes, waitsIssued := 0, 0
	startWait := func() {
		waitsIssued++
		waitingA.Store(true)
		wg.Add(1)
		go func() { defer wg.Done(); fc.WaitForFlush(); waitingA.Store(false) }()
	}
	nextID := 0
	dispatchN := 0
	var lastRetryable time.Time

	services := []string{"", "a", "b", "c", "db:5432", "db:5433"} // a tag value may hold colons itself
	absorbReqs := func() {
		// requests that arrived within one step come from goroutines the runtime ordered (and from a Go
		// map walk over the per-header split): canonicalise their order by content
		var fresh []*HTTPReq
		for ; reqSeen < fab.NReqs(); reqSeen++ {
			fresh = append(fresh, fab.Req(reqSeen))
		}
		if (nDyn > 0 || concMerge > 1) && fab.Gate.Len() >= maxReq {
			// several bodies compete for the last request token: per-header bodies of one flush (Go map
			// walk) or the merge goroutines of two flushes (concurrent-merge > 1)
			e.Unstable("request-tokens-saturated")
		}
		sort.SliceStable(fresh, func(i, j int) bool {
			if fresh[i].Canon != fresh[j].Canon {
				return fresh[i].Canon < fresh[j].Canon
			}
			return fresh[i].Attempt < fresh[j].Attempt
		})
		for _, r := range fresh {
			b := bodies[r.Path+r.BodyHash]
			if b == nil {
				b = &c15Body{hash: r.Canon, firstAt: r.At}
				bodies[r.Path+r.BodyHash] = b
				bodyOrder = append(bodyOrder, r.Path+r.BodyHash)
				obs, status := decodeBody(r)
				if status < 200 || status >= 300 {
					e.Failf("C15/body-undecodable", "request %d (%s) cannot be decoded by the ingestion router: status %d", r.N, r.Path, status)
				}
				if len(obs) == 0 {
					b.nop = true
					b.success = true // served before the run proper (see above)
				}
				// which datapoints does it carry, and do the headers match?
				for _, k := range sortedKeys(obs) {
					o := obs[k]
					own := func(id string) {
						it := bitOwner[string(k)+"|"+id]
						if it == nil {
							it = offenderFor(k, o, id)
						}
						if it == nil {
							e.Failf("C15/unknown-datapoint", "body %s carries %s %s which no client dispatched", b.hash, k, id)
						}
						if it.body != "" && it.body != b.hash {
							e.Failf("C15/datapoint-in-two-bodies", "datapoint #%d (%s %s) is carried by two distinct bodies %s and %s", it.id, k, id, it.body, b.hash)
						}
						it.body = b.hash
						b.items = append(b.items, it)
					}
					switch o.Kind {
					case "counter":
						for bit := int64(1); bit != 0 && bit <= o.Counter; bit <<= 1 {
							if o.Counter&bit != 0 {
								own(fmt.Sprintf("bit%d", bit))
							}
						}
					case "timer":
						for _, val := range o.Values {
							own(fmt.Sprintf("v%g", val))
						}
					case "set":
						for _, m := range o.Members {
							own("m" + m)
						}
					}
					for _, dn := range dynNames {
						// the header carries the value of the series' tag of that name (any of them when
						// the series repeats the tag name), and is absent when the series has no such tag
						var wants []string
						for _, t := range o.Tags {
							if strings.HasPrefix(t, dn+":") {
								wants = append(wants, t[len(dn)+1:])
							}
						}
						got, ok := r.Header.Get(dn), false
						for _, w := range wants {
							ok = ok || got == w
						}
						if len(wants) == 0 {
							ok = got == ""
						}
						if !ok {
							e.Failf("C15/dynamic-header-mismatch", "series %s travels in a request with header %s=%q (its tags of that name: %q)", k, dn, got, wants)
						}
					}
				}
				e.Event("body %s first seen: %s", b.hash, CanonObs(obs))
			}
			// attempt discipline
			if n := len(b.attempts); n > 0 {
				prev := b.attempts[n-1]
				if prev.Outcome == "" {
					e.Failf("C15/attempt-overlap", "body %s: attempt %d started while attempt %d is still in flight", b.hash, n+1, n)
				}
				if b.success {
					e.Failf("C15/retry-after-success", "body %s: sent again (attempt %d) after an attempt succeeded", b.hash, n+1)
				}
			}
			b.attempts = append(b.attempts, r)
		}
	}

	anyBusy := func() bool {
		bmu.Lock()
		defer bmu.Unlock()
		for _, b := range busy {
			if b {
				return true
			}
		}
		return false
	}

	counters := func() (created, sent, retried, dropped, invalid float64) {
		st.NotifyFlush(ctx, time.Second)
		e.Settle()
		g := func(n string) float64 { x, _ := st.G(n + "{}"); return x }
		return g("http.forwarder.created"), g("http.forwarder.sent"), g("http.forwarder.retried"), g("http.forwarder.dropped"), g("http.forwarder.invalid")
	}

	// fully settled: nothing parked anywhere, no call in progress, every body resolved according to the counters
	checkSettled := func(where string) bool {
		if fab.Gate.Len() > 0 || yg.gate.Len() > 0 || anyBusy() || flushInProgressA.Load() {
			return false
		}
		created, sent, retried, dropped, invalid := counters()
		if invalid != 0 {
			e.Failf("C15/invalid-counted", "%s: http.forwarder.invalid = %v: a flush could not be turned into a request and was discarded as a whole (non-UTF-8 strings dispatched in this run: %v)", where, invalid, len(offenders) > 0)
		}
		nb, ns, nr := 0, 0, 0
		for _, k := range bodyOrder {
			b := bodies[k]
			nb++
			if b.success {
				ns++
			}
			nr += len(b.attempts) - 1
		}
		if created != float64(nb) {
			e.Failf("C15/counter-created", "%s: http.forwarder.created = %v, distinct bodies seen upstream = %d", where, created, nb)
		}
		if sent != float64(ns) {
			e.Failf("C15/counter-sent", "%s: http.forwarder.sent = %v, bodies with a successful attempt = %d", where, sent, ns)
		}
		if created != sent+dropped {
			return false // some body is still waiting for a retry
		}
		if retried != float64(nr) {
			e.Failf("C15/counter-retried", "%s: http.forwarder.retried = %v, extra attempts seen = %d", where, retried, nr)
		}
		// every body without success has been abandoned and counted exactly once
		nAb := 0
		for _, k := range bodyOrder {
			b := bodies[k]
			if b.success {
				continue
			}
			nAb++
			last := b.attempts[len(b.attempts)-1]
			if window > 0 && last.EndAt.Sub(b.firstAt) <= window-time.Millisecond {
				e.Failf("C15/abandoned-early", "%s: body %s abandoned %v after its first attempt, retry window is %v", where, b.hash, last.EndAt.Sub(b.firstAt), window)
			}
			if window > 0 {
				e.Probe("abandoned-after-window")
			} else {
				e.Probe("abandoned-retries-off")
			}
		}
		if dropped != float64(nAb) {
			e.Failf("C15/counter-dropped", "%s: http.forwarder.dropped = %v, bodies abandoned = %d", where, dropped, nAb)
		}
		// every datapoint whose dispatch returned before the last flush began is in a body
		if len(flushBegins) > 0 {
			lastBegin := flushBegins[len(flushBegins)-1]
			for _, it := range items {
				if it.returned != 0 && it.returned < lastBegin && it.body == "" {
					e.Failf("C15/datapoint-lost", "%s: datapoint #%d (%s, dispatch %d) returned from dispatch at seq %d, before the last flush began (seq %d), but is in no request body", where, it.id, it.key, it.dispatchN, it.returned, lastBegin)
				}
			}
		}
		return true
	}

	nextTick := func() time.Duration {
		el := time.Since(t0)
		return (el/flushInterval+1)*flushInterval - el
	}

	nSteps := e.Range(5, 60*e.Depth())
	for step := 0; step < nSteps; step++ {
		e.Settle()
		absorbReqs()
		e.Check()
		reqP := fab.Gate.Parked()
		yP := yg.gate.Parked()
		if len(reqP) >= maxReq {
			e.Probe("max-requests-saturated")
			if nDyn > 0 || concMerge > 1 {
				e.Unstable("request-tokens-saturated")
			}
		}
		var idle []int
		bmu.Lock()
		for i, b := range busy {
			if !b {
				idle = append(idle, i)
			}
		}
		bmu.Unlock()
		e.State("req=%d yield=%d idle=%d flushes=%d manualInProgress=%v", len(reqP), len(yP), len(idle), len(flushBegins), flushInProgressA.Load())
		canFlush, canWait := 1, 0
		if manual && (flushInProgressA.Load() || (waitingA.Load() && !pipelined)) {
			canFlush = 0
		}
		if pipelined && !waitingA.Load() && waitsIssued < manualFlushes {
			canWait = 2
		}
		switch e.Weighted("c15", []int{5 * minInt(1, len(idle)), 4 * len(yP), 3 * canFlush, 6 * len(reqP), 2, 1, canWait}) {
		case 6:
			e.Probe("pipelined-manual-flush")
			e.Event("WaitForFlush %d", waitsIssued+1)
			startWait()
		case 0: // dispatch a batch of unique datapoints
			d := idle[e.Choose("dispatcher", len(idle))]
			mm := gostatsd.NewMetricMap(false)
			dispatchN++
			var its []*c15Item
			for i, n := 0, e.Range(1, 3); i < n; i++ {
				nextID++
				it := &c15Item{id: nextID, kind: []string{"counter", "timer", "set"}[e.Draw(3)], dispatchN: dispatchN}
				name := []string{"f.one", "f.two"}[e.Draw(2)]
				var tags []string
				it.service = services[e.Draw(len(services))]
				if it.service != "" {
					tags = append(tags, "service:"+it.service)
					if e.Chance(1, 6) {
						tags = append(tags, "service:"+it.service+"2") // the header tag name repeated on one series
						e.Probe("header-tag-repeated")
					}
				}
				if e.Chance(1, 4) {
					tags = append(tags, "team:x")
				}
				src := []string{"", "10.3.0.1"}[e.Draw(2)]
				badMember := false
				if nonUTF8 && e.Chance(1, 3) {
					// what a statsd client can put on the wire and the parser passes on: a tag value, a host
					// tag taken as source (ignore-host), or a set member with bytes that are not UTF-8
					it.offender = true
					if it.kind == "counter" {
						it.kind = "timer"
					}
					bad := []string{"\xff", "caf\xe9", "\xc3\x28z", "a\x80b"}[e.Draw(4)]
					switch e.Draw(3) {
					case 0:
						tags = append(tags, "zone:"+bad)
					case 1:
						src = "h" + bad
					case 2:
						if it.kind == "set" {
							badMember = true
						} else {
							tags = append(tags, bad+":z")
						}
					}
					e.Fault("non-utf8-string-dispatched")
					e.Probe("non-utf8-string")
				}
				it.rawTags, it.rawSource = append([]string(nil), tags...), src
				sk := it.kind + name + strings.Join(tags, ",") + src
				if it.kind == "counter" && seqBits[sk] >= 50 {
					it.kind = "timer"
				}
				it.key = KeyOf(it.kind, name, tags, src)
				m := &gostatsd.Metric{Name: name, Tags: append(gostatsd.Tags(nil), tags...), Source: gostatsd.Source(src), Rate: 1, Timestamp: gostatsd.Nanotime(nextID)}
				switch it.kind {
				case "counter":
					it.bit = int64(1) << uint(seqBits[sk])
					seqBits[sk]++
					m.Type, m.Value = gostatsd.COUNTER, float64(it.bit)
					bitOwner[string(it.key)+fmt.Sprintf("|bit%d", it.bit)] = it
				case "timer":
					it.value = float64(nextID)
					m.Type, m.Value = gostatsd.TIMER, it.value
					bitOwner[string(it.key)+fmt.Sprintf("|v%g", it.value)] = it
					if it.offender {
						offenders[fmt.Sprintf("v%g", it.value)] = it
					}
				case "set":
					it.member = fmt.Sprintf("x%d", nextID)
					if it.offender {
						offenders["m"+it.member] = it
					}
					if badMember {
						it.member += "\xfe!"
					}
					m.Type, m.StringValue = gostatsd.SET, it.member
					bitOwner[string(it.key)+"|m"+it.member] = it
				}
				mm.Receive(m)
				its = append(its, it)
				items = append(items, it)
			}
			if e.Chance(1, 4) { // a passenger gauge
				mm.Receive(&gostatsd.Metric{Name: "f.gauge", Type: gostatsd.GAUGE, Value: float64(nextID), Rate: 1, Timestamp: gostatsd.Nanotime(nextID)})
			}
			inv := e.NextSeq()
			for _, it := range its {
				it.invoked = inv
			}
			bmu.Lock()
			busy[d] = true
			bmu.Unlock()
			obs, _ := Snapshot(mm)
			yg.names.Store(mm, fmt.Sprintf("%03d", dispatchN))
			e.Event("dispatch %d on d%d: %s", dispatchN, d, strings.ToValidUTF8(CanonObs(obs), "?"))
			work[d] <- func() {
				hfh.DispatchMetricMap(ctx, mm)
				ret := e.NextSeq()
				for _, it := range its {
					it.returned = ret
				}
			}
		case 1: // release a goroutine parked at a yield site
			p := yP[e.Choose("release-yield", len(yP))]
			e.Event("release %s", p.Key)
			if strings.HasPrefix(p.Key, "consolidator.receive") {
				e.Fault("dispatcher-preempted-holding-slot")
			} else {
				e.Fault("flush-preempted")
				e.Probe("flush-parked-after-drain")
			}
			e.Overlap = true
			yg.gate.Release(p, nil)
		case 2: // flush
			for _, p := range yP {
				if strings.HasPrefix(p.Key, "consolidator.receive") {
					e.Probe("dispatcher-parked-across-flush-begin")
				}
			}
			flushBegins = append(flushBegins, e.NextSeq())
			if manual {
				manualFlushes++
				flushInProgressA.Store(true)
				wg.Add(1)
				go func() { defer wg.Done(); fc.Flush(); flushInProgressA.Store(false) }()
				if !pipelined {
					startWait()
				}
				e.Event("manual flush %d", len(flushBegins))
			} else {
				d := nextTick()
				e.Event("flush %d: to tick %v", len(flushBegins), d)
				time.Sleep(d)
			}
		case 3: // decide the outcome of a parked request
			p := reqP[e.Choose("which-request", len(reqP))]
			r := p.Arg.(*HTTPReq)
			b := bodies[r.Path+r.BodyHash]
			var out HTTPOutcome
			switch e.Weighted("outcome", []int{6, 1, 2, 2, 1}) {
			case 0:
				out = HTTPOutcome{Kind: "serve"}
				b.success = true
				if e.Chance(1, 6) {
					// accepted (2xx status and headers arrive), then the connection breaks inside the response body
					out.BrokenResponseBody = true
					e.Fault("response-body-cut-after-2xx")
					e.Probe("response-body-cut-after-2xx")
				}
			case 1:
				out = HTTPOutcome{Kind: "status", Status: []int{400, 404, 413}[e.Draw(3)]}
				e.Fault("http-4xx")
				e.Probe("4xx")
			case 2:
				out = HTTPOutcome{Kind: "status", Status: []int{500, 502, 503}[e.Draw(3)]}
				e.Fault("http-5xx")
			case 3:
				out = HTTPOutcome{Kind: "conn-error"}
				e.Fault("connection-error")
			case 4:
				out = HTTPOutcome{Kind: "lost-response"}
				e.Fault("lost-response")
			}
			if r.Attempt > 1 {
				prev := b.attempts[len(b.attempts)-2]
				switch {
				case prev.Outcome == "status" && prev.Status >= 500:
					e.Probe("retry-after-5xx")
				case prev.Outcome == "conn-error":
					e.Probe("retry-after-conn-error")
				case prev.Outcome == "lost-response":
					e.Probe("retry-after-lost-response")
				case prev.Outcome == "client-aborted":
					e.Probe("slow-response-client-timeout")
				}
			}
			if !b.success {
				lastRetryable = time.Now()
			}
			b.lastEnd = time.Now()
			e.Event("request %s -> %s %d", p.Key, out.Kind, out.Status)
			fab.Gate.Release(p, out)
		case 4: // time passes (back-off timers, client timeouts of held requests)
			d := []time.Duration{50 * time.Millisecond, 300 * time.Millisecond, time.Second, 3 * time.Second, 11 * time.Second}[e.Draw(5)]
			if len(reqP) > 0 && d > 10*time.Second {
				e.Fault("slow-response")
			}
			e.Event("advance %v", d)
			time.Sleep(d)
		case 5:
			if checkSettled(fmt.Sprintf("step %d", step)) {
				e.Event("settled check ok")
			}
		}
		nb := 0
		for _, k := range bodyOrder {
			if bodies[k].firstAt.After(t0) {
				nb++
			}
		}
	}

	// ---- settle phase: faults stop. Yields are released, every request is served, time advances
	// until every body is resolved.
	e.Event("settle")
	yg.off.Store(true) // no new parking from here on; what is parked is released one by one
	releaseYields := func() bool {
		// one at a time, in a fixed order, settling in between: releasing several parked
		// goroutines at once would let the runtime decide who takes which slot
		any := false
		for {
			e.Settle()
			ps := yg.gate.Parked()
			if len(ps) == 0 {
				return any
			}
			yg.gate.Release(ps[0], nil)
			any = true
		}
	}
	for i := 0; ; i++ {
		releaseYields()
		absorbReqs()
		e.Check()
		progressed := false
		for _, p := range fab.Gate.Parked() {
			r := p.Arg.(*HTTPReq)
			bodies[r.Path+r.BodyHash].success = true
			fab.Gate.Release(p, HTTPOutcome{Kind: "serve"})
			progressed = true
			e.Settle()
		}
		if progressed {
			continue
		}
		if !anyBusy() && !flushInProgressA.Load() && checkSettled("settle phase") {
			break
		}
		if i > 200 {
			created, sent, _, dropped, _ := counters()
			e.Failf("C15/body-in-limbo", "faults stopped %d steps ago, every request is answered 2xx at once, yet created=%v sent=%v dropped=%v; busy=%v manualFlushInProgress=%v parkedYields=%d", i, created, sent, dropped, anyBusy(), flushInProgressA.Load(), yg.gate.Len())
		}
		time.Sleep(500 * time.Millisecond)
	}
	// one more flush so that everything dispatched so far must come out, then (4) the tokens test:
	// a flush producing max-requests bodies still goes out.
	finalFlush := func(tag string) {
		if manual {
			// the coordinator's user (the Lambda manager) alternates Flush and WaitForFlush; while a
			// wait is pending it cannot ask for another flush, so nothing dispatched later would leave
			for i := 0; waitingA.Load() || waitsIssued < manualFlushes; i++ {
				if !waitingA.Load() {
					startWait() // pipelined: consume the notifications of the flushes already issued
					e.Settle()
					continue
				}
				if i > 50 {
					e.Failf("C15/flush-never-notified", "%s: WaitForFlush has not returned although every request of the flush was answered long ago (flushes so far %d, bodies %d): the caller can never flush again", tag, len(flushBegins), len(bodyOrder))
				}
				time.Sleep(200 * time.Millisecond)
				e.Settle()
			}
		}
		flushBegins = append(flushBegins, e.NextSeq())
		if manual {
			manualFlushes++
			flushInProgressA.Store(true)
			wg.Add(1)
			go func() { defer wg.Done(); fc.Flush(); flushInProgressA.Store(false) }()
			startWait()
		} else {
			time.Sleep(nextTick())
		}
		for i := 0; ; i++ {
			releaseYields()
			absorbReqs()
			e.Check()
			progressed := false
			for _, p := range fab.Gate.Parked() {
				r := p.Arg.(*HTTPReq)
				bodies[r.Path+r.BodyHash].success = true
				fab.Gate.Release(p, HTTPOutcome{Kind: "serve"})
				progressed = true
				e.Settle()
			}
			if progressed {
				continue
			}
			if !flushInProgressA.Load() && checkSettled(tag) {
				return
			}
			if i > 50 {
				e.Failf("C15/final-flush-wedged", "%s: flush did not complete although the upstream answers at once (manual flush in progress=%v, parked requests=%d)", tag, flushInProgressA.Load(), fab.Gate.Len())
			}
			time.Sleep(200 * time.Millisecond)
		}
	}
	finalFlush("final flush")
	for _, it := range items {
		if it.returned == 0 {
			e.Failf("C15/dispatch-never-returned", "dispatch %d never returned although faults stopped", it.dispatchN)
		}
		if it.body == "" {
			e.Failf("C15/datapoint-lost", "end of run: datapoint #%d (%s, dispatch %d) is in no request body", it.id, it.key, it.dispatchN)
		}
	}
	if nDyn > 0 {
		// semaphore tokens: a flush that needs max-requests bodies at once
		mm := gostatsd.NewMetricMap(false)
		var its []*c15Item
		for i := 0; i < maxReq; i++ {
			nextID++
			it := &c15Item{id: nextID, kind: "set", dispatchN: -1, member: fmt.Sprintf("tok%d", nextID)}
			tags := []string{fmt.Sprintf("service:tok%d", i)}
			it.key = KeyOf("set", "f.tok", tags, "")
			bitOwner[string(it.key)+"|m"+it.member] = it
			mm.Receive(&gostatsd.Metric{Name: "f.tok", Type: gostatsd.SET, StringValue: it.member, Tags: tags, Rate: 1, Timestamp: 1})
			its = append(its, it)
			items = append(items, it)
		}
		inv := e.NextSeq()
		hfh.DispatchMetricMap(ctx, mm)
		ret := e.NextSeq()
		for _, it := range its {
			it.invoked, it.returned = inv, ret
		}
		finalFlush("token flush")
		for _, it := range its {
			if it.body == "" {
				e.Failf("C15/request-token-leaked", "after the run a flush needing %d concurrent requests did not deliver datapoint %s", maxReq, it.key)
			}
		}
		if maxReq > 1 {
			e.Probe("several-bodies-per-flush")
		}
	}
	if manual {
		// every flush has been waited for; one more wait must not return (a flush notifies once)
		for i := 0; waitingA.Load(); i++ {
			if i > 50 {
				e.Failf("C15/flush-never-notified", "end of run: the WaitForFlush for flush %d of %d has not returned", waitsIssued, manualFlushes)
			}
			time.Sleep(200 * time.Millisecond)
			e.Settle()
		}
		startWait()
		time.Sleep(2 * time.Second)
		e.Settle()
		if !waitingA.Load() {
			e.Failf("C15/flush-notified-twice", "%d manual flushes were each waited for, yet one more WaitForFlush returned: some flush notified the coordinator more than once", manualFlushes)
		}
		fc.NotifyFlush() // release the probe
		e.Settle()
	}
	if !manual {
		// shutdown: the consolidator flushes once more when the server's context ends; what was
		// dispatched before that must still leave (the posts do not use the server's context)
		nextID++
		it := &c15Item{id: nextID, kind: "set", dispatchN: -2, member: fmt.Sprintf("bye%d", nextID)}
		it.key = KeyOf("set", "f.bye", nil, "")
		bitOwner[string(it.key)+"|m"+it.member] = it
		mm := gostatsd.NewMetricMap(false)
		mm.Receive(&gostatsd.Metric{Name: "f.bye", Type: gostatsd.SET, StringValue: it.member, Rate: 1, Timestamp: 1})
		items = append(items, it)
		it.invoked = e.NextSeq()
		hfh.DispatchMetricMap(ctx, mm)
		it.returned = e.NextSeq()
		e.Settle()
		e.Probe("shutdown-with-data-pending")
		e.Event("shutdown")
		flushBegins = append(flushBegins, e.NextSeq())
		cancel()
		refuseOnce := window >= 10*time.Second && e.Bool() // the last body's first attempt fails: it is waiting for its retry while the forwarder stops
		for i := 0; ; i++ {
			e.Settle()
			absorbReqs()
			e.Check()
			progressed := false
			for _, p := range fab.Gate.Parked() {
				r := p.Arg.(*HTTPReq)
				if refuseOnce {
					refuseOnce = false
					e.Fault("http-5xx")
					e.Probe("shutdown-with-retry-pending")
					e.Event("shutdown: refuse %s once", r.Path)
					fab.Gate.Release(p, HTTPOutcome{Kind: "status", Status: 503})
					progressed = true
					e.Settle()
					continue
				}
				bodies[r.Path+r.BodyHash].success = true
				fab.Gate.Release(p, HTTPOutcome{Kind: "serve"})
				progressed = true
				e.Settle()
			}
			if progressed {
				continue
			}
			if runReturned.Load() {
				break
			}
			if i > 150 {
				e.Failf("C15/shutdown-wedged", "the forwarder has not stopped %d steps after its context ended although every request is answered at once", i)
			}
			time.Sleep(200 * time.Millisecond)
		}
		absorbReqs()
		if it.body == "" {
			e.Failf("C15/lost-at-shutdown", "datapoint %s was dispatched before the server stopped; the forwarder has shut down (its final flush ran) and no request carried it", it.key)
		}
		for _, k := range bodyOrder {
			// every attempt but (in some runs) the first was answered 2xx at once and the retry window is
			// far from over: the forwarder may not stop with that body undelivered
			if b := bodies[k]; b.hash == it.body && !b.success {
				e.Failf("C15/abandoned-at-shutdown", "the last body (carrying %s) had its first attempt refused %v ago, the retry window is %v, and the forwarder has shut down without sending it again or counting it as dropped", it.key, time.Since(b.firstAt), window)
			}
		}
	}
	e.Note["bodies"] = len(bodyOrder)
	e.Note["datapoints"] = len(items)
	_ = sort.Strings
	_ = http.StatusOK
	_ = lastRetryable
}
