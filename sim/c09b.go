package verifsim

// C09, aggregation-node variant: the series do not come from datagrams but from the http ingestion
// endpoint (what a tier of forwarders sends) and from metric maps that were held up somewhere on
// their way (the cloud stage parks the batches of a host while its lookup is outstanding), so a map
// may reach the aggregator after a flush although its datapoints are older than what the aggregator
// already holds. Real ingestion router, real BackendHandler and aggregators on the bubble clock;
// flushes as MetricFlusher performs them (Flush, Process, Reset in one command per worker).
// T, the time of a series' last datapoint, is the newest timestamp it has received.

import (
	"context"
	"fmt"
	"sync"
	"time"

	"github.com/sirupsen/logrus"
	"google.golang.org/protobuf/proto"

	"github.com/atlassian/gostatsd"
	"github.com/atlassian/gostatsd/pb"
	"github.com/atlassian/gostatsd/pkg/statsd"
	"github.com/atlassian/gostatsd/pkg/web"
)

type c09bSeries struct {
	kind, name, src string
	tags            []string
	key             SeriesKey
	// model
	live    bool
	lastTS  time.Time
	counter int64
	values  []float64
	members map[string]struct{}
	gauge   float64
	gaugeTS time.Time
	gaugeOK bool // false while two datapoints share the newest timestamp with different values
}

func c09Node(e *Env) {
	e.Probe("node-variant")
	expChoices := []time.Duration{-time.Nanosecond, 0, 300 * time.Millisecond, 600 * time.Millisecond, time.Second, 1500 * time.Millisecond, 8760 * time.Hour}
	expOf := map[string]time.Duration{}
	for _, k := range []string{"counter", "gauge", "set", "timer"} {
		expOf[k] = expChoices[e.Draw(len(expChoices))]
	}
	flushIv := []time.Duration{200 * time.Millisecond, 500 * time.Millisecond, time.Second}[e.Draw(3)]
	nWorkers := e.Range(1, 3)
	bh := statsd.NewBackendHandler(nil, 1, nWorkers, 4, statsd.AggregatorFactoryFunc(func() statsd.Aggregator {
		return statsd.NewMetricAggregator([]float64{90}, expOf["counter"], expOf["gauge"], expOf["set"], expOf["timer"], gostatsd.TimerSubtypes{}, 0)
	}))
	ctx, cancel := context.WithCancel(context.Background())
	var wg sync.WaitGroup
	wg.Add(1)
	go func() { defer wg.Done(); bh.Run(ctx) }()
	defer wg.Wait()
	defer cancel()
	srv, err := web.NewHttpServer(logrus.StandardLogger(), bh, "in", "in", false, false, true, false, nil, nil)
	if err != nil {
		e.Failf("C09/harness", "%v", err)
	}
	fab := NewFabric()
	fab.Handle("in", srv.Router)
	e.Settle()
	t0 := time.Now()
	e.Event("node cfg workers=%d flush=%v exp c=%v g=%v s=%v t=%v", nWorkers, flushIv, expOf["counter"], expOf["gauge"], expOf["set"], expOf["timer"])

	var series []*c09bSeries
	for i, n := 0, e.Range(1, 4); i < n; i++ {
		s := &c09bSeries{kind: []string{"counter", "gauge", "set", "timer"}[e.Draw(4)], name: fmt.Sprintf("n%d", i), src: []string{"", "10.9.1.1"}[e.Draw(2)]}
		if e.Bool() {
			s.tags = []string{"env:prod"}
		}
		s.key = KeyOf(s.kind, s.name, s.tags, s.src)
		series = append(series, s)
	}
	nextVal := 0
	add := func(s *c09bSeries, ts time.Time) (val float64, member string) {
		nextVal++
		if !s.live {
			*s = c09bSeries{kind: s.kind, name: s.name, src: s.src, tags: s.tags, key: s.key, live: true, members: map[string]struct{}{}, lastTS: ts}
		}
		if ts.After(s.lastTS) {
			s.lastTS = ts
		}
		switch s.kind {
		case "counter":
			val = float64(1 + e.Draw(5))
			s.counter += int64(val)
		case "timer":
			val = float64(nextVal)
			s.values = append(s.values, val)
		case "set":
			member = fmt.Sprintf("m%d", e.Draw(4))
			s.members[member] = struct{}{}
		case "gauge":
			val = float64(nextVal)
			switch {
			case ts.After(s.gaugeTS) || s.gaugeTS.IsZero():
				s.gauge, s.gaugeTS, s.gaugeOK = val, ts, true
			case ts.Equal(s.gaugeTS):
				s.gaugeOK = false // a tie on the newest timestamp: either value
			}
		}
		return
	}
	var lastFlush = t0
	flush := func(n int) {
		var mu sync.Mutex
		got := map[SeriesKey]*Obs{}
		var twice []SeriesKey
		delta := time.Since(lastFlush)
		wait := bh.Process(ctx, func(_ int, aggr statsd.Aggregator) {
			aggr.Flush(delta)
			aggr.Process(func(mm *gostatsd.MetricMap) {
				o, _ := Snapshot(mm)
				mu.Lock()
				for k, v := range o {
					if _, dup := got[k]; dup {
						twice = append(twice, k)
					}
					got[k] = v
				}
				mu.Unlock()
			})
			aggr.Reset()
		})
		wait()
		now := time.Now()
		lastFlush = now
		e.Event("flush %d at +%v obs=%s", n, now.Sub(t0), CanonObs(got))
		for _, k := range twice {
			e.Failf("C09/series-twice-in-flush", "node: series %s reported twice in flush %d", k, n)
		}
		known := map[SeriesKey]*c09bSeries{}
		for _, s := range series {
			known[s.key] = s
			if !s.live {
				continue
			}
			o := got[s.key]
			if o == nil {
				e.Failf("C09/missing-before-expiry", "node: flush %d at +%v: series %s (newest datapoint at +%v, expiry %v) is not reported", n, now.Sub(t0), s.key, s.lastTS.Sub(t0), expOf[s.kind])
			}
			switch s.kind {
			case "counter":
				if o.Counter != s.counter {
					e.Failf("C09/counter-value", "node: flush %d: %s reported %d, expected %d", n, s.key, o.Counter, s.counter)
				}
			case "timer":
				if !floatsEqual(sortedFloats(o.Values), sortedFloats(s.values)) {
					e.Failf("C09/timer-values", "node: flush %d: %s values %s, expected %s", n, s.key, fmtFloats(sortedFloats(o.Values)), fmtFloats(sortedFloats(s.values)))
				}
			case "set":
				if !sameStrings(o.Members, keysOf(s.members)) {
					e.Failf("C09/set-value", "node: flush %d: %s members %v, expected %v", n, s.key, o.Members, keysOf(s.members))
				}
			case "gauge":
				if s.gaugeOK && o.Gauge != s.gauge {
					e.Failf("C09/gauge-value", "node: flush %d: gauge %s = %v, the datapoint with the newest timestamp says %v", n, s.key, o.Gauge, s.gauge)
				}
			}
			if len(s.values) == 0 && s.counter == 0 && len(s.members) == 0 {
				e.Probe("reported-idle")
			}
		}
		for _, k := range sortedKeys(got) {
			if s := known[k]; s == nil || !s.live {
				e.Failf("C09/reported-after-expiry", "node: flush %d at +%v: series %s is reported although it expired (or was never sent)", n, now.Sub(t0), k)
			}
		}
		for _, s := range series {
			if !s.live {
				continue
			}
			if iv := expOf[s.kind]; iv != 0 && now.Sub(s.lastTS) > iv {
				s.live = false
				e.Probe("expired")
				e.Overlap = true
				continue
			}
			s.counter, s.values, s.members = 0, nil, map[string]struct{}{}
		}
	}

	nFlush := 0
	nextTick := func() time.Duration {
		el := time.Since(t0)
		return (el/flushIv+1)*flushIv - el
	}
	for op, n := 0, e.Range(4, 40*e.Depth()); op < n; op++ {
		e.Settle()
		e.Check()
		switch e.Weighted("c09b", []int{3, 2, 2, 3}) {
		case 0: // a datapoint arrives on the http ingestion endpoint: dated at receipt
			s := series[e.Draw(len(series))]
			offGrid := e.Chance(1, 3)
			if offGrid {
				// 400us before a grid point: some later flush is then more than the expiry interval after
				// this datapoint by less than a millisecond
				time.Sleep(50*time.Millisecond - 400*time.Microsecond)
				e.Probe("datapoint-just-before-a-grid-point")
			}
			now := time.Now()
			val, member := add(s, now)
			msg := &pb.RawMessageV2{}
			tk := gostatsd.FormatTagsKey(gostatsd.Source(s.src), s.tags)
			switch s.kind {
			case "counter":
				msg.Counters = map[string]*pb.CounterTagV2{s.name: {TagMap: map[string]*pb.RawCounterV2{tk: {Tags: s.tags, Hostname: s.src, Value: int64(val)}}}}
			case "gauge":
				msg.Gauges = map[string]*pb.GaugeTagV2{s.name: {TagMap: map[string]*pb.RawGaugeV2{tk: {Tags: s.tags, Hostname: s.src, Value: val}}}}
			case "timer":
				msg.Timers = map[string]*pb.TimerTagV2{s.name: {TagMap: map[string]*pb.RawTimerV2{tk: {Tags: s.tags, Hostname: s.src, Values: []float64{val}, SampleCount: 1}}}}
			case "set":
				msg.Sets = map[string]*pb.SetTagV2{s.name: {TagMap: map[string]*pb.RawSetV2{tk: {Tags: s.tags, Hostname: s.src, Values: []string{member}}}}}
			}
			body, _ := proto.Marshal(msg)
			if st := fab.Serve(&HTTPReq{Method: "POST", Host: "in", Path: "/v2/raw", Header: map[string][]string{}, Body: body}).StatusCode; st != 202 {
				e.Failf("C09/harness", "node: a well-formed /v2/raw request was answered %d", st)
			}
			e.Probe("datapoint-over-http")
			e.Event("http +%v %s val=%v member=%q", now.Sub(t0), s.key, val, member)
			if offGrid {
				time.Sleep(400 * time.Microsecond) // back onto the grid
			}
			time.Sleep(time.Duration(1+e.Draw(3)) * 50 * time.Millisecond)
		case 1: // a map that was held up on its way arrives: its datapoint is older than now
			s := series[e.Draw(len(series))]
			ts := time.Now().Add(-time.Duration(e.Draw(9)) * 250 * time.Millisecond)
			if ts.Before(t0) {
				ts = t0
			}
			if s.live && ts.Before(s.lastTS) {
				e.Probe("older-datapoint-after-newer")
			}
			val, member := add(s, ts)
			m := &gostatsd.Metric{Name: s.name, Tags: append(gostatsd.Tags(nil), s.tags...), Source: gostatsd.Source(s.src), Rate: 1, Timestamp: gostatsd.Nanotime(ts.UnixNano()), Value: val, StringValue: member}
			m.Type = map[string]gostatsd.MetricType{"counter": gostatsd.COUNTER, "gauge": gostatsd.GAUGE, "timer": gostatsd.TIMER, "set": gostatsd.SET}[s.kind]
			mm := gostatsd.NewMetricMap(false)
			mm.Receive(m)
			bh.DispatchMetricMap(ctx, mm)
			e.Event("late map +%v (dated +%v) %s val=%v member=%q", time.Since(t0), ts.Sub(t0), s.key, val, member)
			time.Sleep(time.Duration(1+e.Draw(3)) * 50 * time.Millisecond)
		case 2:
			d := time.Duration(1+e.Draw(12)) * 50 * time.Millisecond
			e.Event("idle %v", d)
			time.Sleep(d)
		case 3:
			time.Sleep(nextTick())
			e.Settle()
			nFlush++
			flush(nFlush)
		}
	}
	// everything with a finite expiry runs out
	for i := 0; i < int(3*time.Second/flushIv)+2; i++ {
		time.Sleep(nextTick())
		e.Settle()
		nFlush++
		flush(nFlush)
	}
	for _, s := range series {
		if iv := expOf[s.kind]; s.live && iv != 0 && iv < time.Hour {
			e.Failf("C09/never-expires", "node: series %s (expiry %v) is still reported %v after its newest datapoint", s.key, iv, time.Since(s.lastTS))
		}
	}
	e.Note["node-flushes"] = nFlush
}
