package verifsim

import (
	"bytes"
	"encoding/json"
	"fmt"
	"os"
	"os/exec"
	"regexp"
	"sort"
	"strconv"
	"strings"
	"testing"
	"time"
)

// The test binary is a multi-mode worker driven by /verif/check through environment variables.
//
//	VERIF_MODE=explore  VERIF_PROP VERIF_SEED VERIF_FROM VERIF_STRIDE VERIF_MAXRUNS VERIF_DEADLINE_S VERIF_OUT VERIF_PROGRESS
//	VERIF_MODE=replay   VERIF_REPLAY=<file> VERIF_OUT [VERIF_TAPE_SINK]       (one run, in process)
//	VERIF_MODE=genrun   VERIF_PROP VERIF_SEED VERIF_RUN VERIF_OUT [VERIF_TAPE_SINK]  (one generated run)
//	VERIF_MODE=shrink   VERIF_REPLAY=<file> VERIF_OUT VERIF_BUDGET_S [VERIF_CRASH=1]
//	VERIF_MODE=verify   VERIF_REPLAY=<file> VERIF_OUT [VERIF_CRASH=1]
//	VERIF_MODE=list

var registry = map[string]func() Property{}

func register(id string, f func() Property) { registry[id] = f }

// ReplayFile is the on-disk form of one scenario.
type ReplayFile struct {
	Property  string     `json:"property"`
	Seed      uint64     `json:"seed"`
	Run       uint64     `json:"run"`
	Tape      []uint32   `json:"tape"`
	Crash     bool       `json:"crash,omitempty"`
	Violation *Violation `json:"violation,omitempty"`
	TraceHash string     `json:"trace_hash,omitempty"`
	Trace     []string   `json:"trace,omitempty"`
	Shrink    string     `json:"shrink,omitempty"`
	OrigLen   int        `json:"orig_tape_len,omitempty"`
}

type failure struct {
	Run       uint64     `json:"run"`
	Tape      []uint32   `json:"tape"`
	Violation *Violation `json:"violation"`
	TraceHash string     `json:"trace_hash"`
	Trace     []string   `json:"trace"`
}

type summary struct {
	Property    string            `json:"property"`
	Seed        uint64            `json:"seed"`
	Runs        int               `json:"runs"`
	FirstRun    uint64            `json:"first_run"`
	LastRun     uint64            `json:"last_run"`
	Sched       []string          `json:"sched"`
	Nontrivial  []string          `json:"nontrivial"`
	States      []string          `json:"states"`
	Faults      map[string]int    `json:"faults"`
	Probes      map[string]int    `json:"probes"`
	SimSeconds  float64           `json:"sim_seconds"`
	Choices     int               `json:"choices"`
	Samples     []any             `json:"samples"`
	Failures    []failure         `json:"failures"`
	WallS       float64           `json:"wall_s"`
	Notes       map[string]any    `json:"notes"`
	Partial     bool              `json:"partial,omitempty"`
	Unstable    int               `json:"unstable_runs"`
	KnownHits   map[string]string `json:"known_hits,omitempty"`
	KnownRuns   map[string]int    `json:"known_runs,omitempty"`
	TraceHashes map[string]string `json:"trace_hashes,omitempty"`
}

func envU64(name string, def uint64) uint64 {
	if v := os.Getenv(name); v != "" {
		n, err := strconv.ParseUint(v, 10, 64)
		if err == nil {
			return n
		}
	}
	return def
}

func envF(name string, def float64) float64 {
	if v := os.Getenv(name); v != "" {
		n, err := strconv.ParseFloat(v, 64)
		if err == nil {
			return n
		}
	}
	return def
}

func writeJSON(path string, v any) {
	b, err := json.MarshalIndent(v, "", " ")
	if err != nil {
		panic(err)
	}
	tmp := path + ".tmp"
	if err := os.WriteFile(tmp, b, 0o644); err != nil {
		panic(err)
	}
	if err := os.Rename(tmp, path); err != nil {
		panic(err)
	}
}

func getProp(t *testing.T, id string) Property {
	f, ok := registry[id]
	if !ok {
		fmt.Fprintf(os.Stderr, "unknown property %q\n", id)
		os.Exit(2)
	}
	return f()
}

func TestSim(t *testing.T) {
	mode := os.Getenv("VERIF_MODE")
	switch mode {
	case "":
		t.Skip("VERIF_MODE not set")
	case "list":
		ids := []string{}
		for id := range registry {
			ids = append(ids, id)
		}
		sort.Strings(ids)
		fmt.Println(strings.Join(ids, " "))
	case "explore":
		modeExplore(t)
	case "replay":
		modeReplay(t)
	case "genrun":
		modeGenRun(t)
	case "shrink":
		modeShrink(t)
	case "verify":
		modeVerify(t)
	default:
		fmt.Fprintf(os.Stderr, "unknown VERIF_MODE %q\n", mode)
		os.Exit(2)
	}
}

func modeExplore(t *testing.T) {
	prop := os.Getenv("VERIF_PROP")
	p := getProp(t, prop)
	seed := envU64("VERIF_SEED", 1)
	from := envU64("VERIF_FROM", 0)
	stride := envU64("VERIF_STRIDE", 1)
	maxRuns := envU64("VERIF_MAXRUNS", 1<<62)
	deadline := time.Now().Add(time.Duration(envF("VERIF_DEADLINE_S", 30) * float64(time.Second)))
	out := os.Getenv("VERIF_OUT")
	progress := os.Getenv("VERIF_PROGRESS")

	sum := &summary{Property: prop, Seed: seed, Faults: map[string]int{}, Probes: map[string]int{}, FirstRun: from, Notes: map[string]any{}}
	sched := map[string]struct{}{}
	nontriv := map[string]struct{}{}
	states := map[string]struct{}{}
	classes := map[string]bool{}
	start := time.Now()
	lastWrite := time.Now()
	flush := func(final bool) {
		sum.Sched, sum.Nontrivial, sum.States = nil, nil, nil
		for k := range sched {
			sum.Sched = append(sum.Sched, k)
		}
		for k := range nontriv {
			sum.Nontrivial = append(sum.Nontrivial, k)
		}
		for k := range states {
			sum.States = append(sum.States, k)
		}
		sum.WallS = time.Since(start).Seconds()
		sum.Partial = !final
		writeJSON(out, sum)
	}
	for i, n := from, uint64(0); n < maxRuns; i, n = i+stride, n+1 {
		if n > 0 && time.Now().After(deadline) {
			break
		}
		if time.Since(lastWrite) > 1500*time.Millisecond {
			flush(false) // a later crash must not lose the coverage so far
			lastWrite = time.Now()
		}
		if progress != "" {
			os.WriteFile(progress, []byte(fmt.Sprintf(`{"property":%q,"seed":%d,"run":%d}`, prop, seed, i)), 0o644)
		}
		rs := MixSeed(seed, prop, i)
		res := RunOne(t, p, NewGenTape(rs), rs, i)
		sum.Runs++
		sum.LastRun = i
		if os.Getenv("VERIF_KEEP_HASHES") != "" {
			if sum.TraceHashes == nil {
				sum.TraceHashes = map[string]string{}
			}
			h := res.TraceHash
			if res.Violation != nil {
				h += "!" + res.Violation.Class
			}
			sum.TraceHashes[strconv.FormatUint(i, 10)] = h
		}
		sched[res.SchedHash] = struct{}{}
		if res.Unstable != "" {
			sum.Unstable++
		}
		for k, v := range res.KnownHits {
			if sum.KnownHits == nil {
				sum.KnownHits = map[string]string{}
				sum.KnownRuns = map[string]int{}
			}
			if _, ok := sum.KnownHits[k]; !ok {
				sum.KnownHits[k] = fmt.Sprintf("run %d: %s", i, v)
			}
			sum.KnownRuns[k]++
		}
		nf := 0
		for k, v := range res.Faults {
			sum.Faults[k] += v
			nf += v
		}
		for k, v := range res.Probes {
			sum.Probes[k] += v
		}
		for _, s := range res.States {
			states[s] = struct{}{}
		}
		if nf > 0 || res.Overlap {
			nontriv[res.SchedHash] = struct{}{}
		}
		sum.SimSeconds += res.SimSeconds
		sum.Choices += res.Choices
		if len(sum.Samples) < 2 {
			tr := res.Trace
			if len(tr) > 60 {
				tr = tr[:60]
			}
			sum.Samples = append(sum.Samples, map[string]any{"run": i, "seed": rs, "tape_len": len(res.Tape), "trace_head": tr, "note": res.Note})
		}
		if res.Violation != nil && !classes[res.Violation.Class] {
			classes[res.Violation.Class] = true
			sum.Failures = append(sum.Failures, failure{Run: i, Tape: res.Tape, Violation: res.Violation, TraceHash: res.TraceHash, Trace: res.Trace})
			if len(sum.Failures) >= 4 {
				break
			}
		}
	}
	flush(true)
}

func loadReplay() *ReplayFile {
	b, err := os.ReadFile(os.Getenv("VERIF_REPLAY"))
	if err != nil {
		fmt.Fprintln(os.Stderr, err)
		os.Exit(2)
	}
	rf := &ReplayFile{}
	if err := json.Unmarshal(b, rf); err != nil {
		fmt.Fprintln(os.Stderr, err)
		os.Exit(2)
	}
	return rf
}

func tapeSink(tape *Tape) func() {
	if path := os.Getenv("VERIF_TAPE_SINK"); path != "" {
		f, err := os.OpenFile(path, os.O_CREATE|os.O_WRONLY|os.O_TRUNC, 0o644)
		if err != nil {
			panic(err)
		}
		tape.sink = f
		return func() { f.Close() }
	}
	return func() {}
}

type replayOut struct {
	Violation *Violation `json:"violation"`
	TraceHash string     `json:"trace_hash"`
	Trace     []string   `json:"trace"`
	Tape      []uint32   `json:"tape"`
}

func modeReplay(t *testing.T) {
	rf := loadReplay()
	p := getProp(t, rf.Property)
	tape := NewReplayTape(rf.Tape)
	defer tapeSink(tape)()
	res := RunOne(t, p, tape, MixSeed(rf.Seed, rf.Property, rf.Run), rf.Run)
	writeJSON(os.Getenv("VERIF_OUT"), replayOut{res.Violation, res.TraceHash, res.Trace, res.Tape})
}

func modeGenRun(t *testing.T) {
	prop := os.Getenv("VERIF_PROP")
	p := getProp(t, prop)
	seed := envU64("VERIF_SEED", 1)
	run := envU64("VERIF_RUN", 0)
	rs := MixSeed(seed, prop, run)
	tape := NewGenTape(rs)
	defer tapeSink(tape)()
	res := RunOne(t, p, tape, rs, run)
	writeJSON(os.Getenv("VERIF_OUT"), replayOut{res.Violation, res.TraceHash, res.Trace, res.Tape})
}

// ---------------------------------------------------------------------------------------------
// Candidate execution: in process, or in a child process when the failure kills the process.

var reAddr = regexp.MustCompile(`0x[0-9a-f]+|\+0x[0-9a-f]+|goroutine \d+|\[[^\]]*\]:`)
var reFrame = regexp.MustCompile(`(?m)^(github\.com/atlassian/gostatsd(?:/[\w./-]+)?\.[\w.()*]+)\(`)

// crashClass turns the stderr of a dead worker into a stable violation class.
func crashClass(prop, stderr string) *Violation {
	idx := strings.Index(stderr, "panic: ")
	kind := "panic"
	if idx < 0 {
		idx = strings.Index(stderr, "fatal error: ")
		kind = "fatal"
	}
	if idx < 0 {
		return &Violation{Class: prop + "/crash:unknown", Msg: firstLines(stderr, 30)}
	}
	rest := stderr[idx:]
	first := strings.SplitN(rest, "\n", 2)[0]
	first = reAddr.ReplaceAllString(first, "")
	// normalise numbers in messages such as "slice bounds out of range [:7] with capacity 5"
	first = regexp.MustCompile(`\d+`).ReplaceAllString(first, "N")
	frame := ""
	for _, m := range reFrame.FindAllStringSubmatch(rest, -1) {
		if strings.Contains(m[1], "/verifsim") {
			continue
		}
		frame = m[1]
		break
	}
	if i := strings.LastIndex(frame, "/"); i >= 0 {
		frame = frame[i+1:]
	}
	return &Violation{Class: fmt.Sprintf("%s/crash:%s:%s@%s", prop, kind, strings.TrimSpace(strings.TrimPrefix(strings.TrimPrefix(first, "panic: "), "fatal error: ")), frame), Msg: firstLines(rest, 60)}
}

type runner func(tape []uint32) (*Violation, string, []uint32, []string)

func inProcRunner(t *testing.T, rf *ReplayFile) runner {
	p := getProp(t, rf.Property)
	rs := MixSeed(rf.Seed, rf.Property, rf.Run)
	return func(tape []uint32) (*Violation, string, []uint32, []string) {
		res := RunOne(t, p, NewReplayTape(tape), rs, rf.Run)
		return res.Violation, res.TraceHash, res.Tape, res.Trace
	}
}

func childRunner(rf *ReplayFile) runner {
	dir, err := os.MkdirTemp(os.Getenv("VERIF_SCRATCH"), "child-")
	if err != nil {
		panic(err)
	}
	n := 0
	return func(tape []uint32) (*Violation, string, []uint32, []string) {
		n++
		in := fmt.Sprintf("%s/in.json", dir)
		out := fmt.Sprintf("%s/out.json", dir)
		sink := fmt.Sprintf("%s/sink.txt", dir)
		os.Remove(out)
		os.Remove(sink)
		writeJSON(in, &ReplayFile{Property: rf.Property, Seed: rf.Seed, Run: rf.Run, Tape: tape})
		cmd := exec.Command(os.Args[0], "-test.run", "^TestSim$", "-test.timeout", "120s")
		cmd.Env = append(os.Environ(), "VERIF_MODE=replay", "VERIF_REPLAY="+in, "VERIF_OUT="+out, "VERIF_TAPE_SINK="+sink, "VERIF_CRASH=")
		var stderr bytes.Buffer
		cmd.Stderr = &stderr
		cmd.Stdout = &stderr
		err := cmd.Run()
		if b, rerr := os.ReadFile(out); rerr == nil {
			ro := &replayOut{}
			if json.Unmarshal(b, ro) == nil {
				return ro.Violation, ro.TraceHash, ro.Tape, ro.Trace
			}
		}
		if err == nil {
			return nil, "", tape, nil
		}
		// the child died: the consumed tape is in the sink
		var used []uint32
		if b, rerr := os.ReadFile(sink); rerr == nil {
			for _, l := range strings.Fields(string(b)) {
				v, _ := strconv.ParseUint(l, 10, 32)
				used = append(used, uint32(v))
			}
		}
		return crashClass(rf.Property, stderr.String()), "", used, nil
	}
}

func pickRunner(t *testing.T, rf *ReplayFile) runner {
	if os.Getenv("VERIF_CRASH") == "1" || rf.Crash {
		return childRunner(rf)
	}
	return inProcRunner(t, rf)
}

// modeShrink minimises the failing tape while the same violation class persists.
func modeShrink(t *testing.T) {
	rf := loadReplay()
	run := pickRunner(t, rf)
	budget := time.Duration(envF("VERIF_BUDGET_S", 60) * float64(time.Second))
	deadline := time.Now().Add(budget)
	v0, th0, used0, tr0 := run(rf.Tape)
	out := os.Getenv("VERIF_OUT")
	if v0 == nil {
		rf.Shrink = "original tape did not fail on re-execution"
		rf.Violation = nil
		writeJSON(out, rf)
		return
	}
	class := v0.Class
	if rf.Violation != nil && rf.Violation.Class != class {
		rf.Shrink = fmt.Sprintf("class changed on re-execution: %s -> %s", rf.Violation.Class, class)
	}
	best := used0
	bestV, bestTH, bestTr := v0, th0, tr0
	tries := 0
	try := func(c []uint32) bool {
		if time.Now().After(deadline) {
			return false
		}
		tries++
		v, th, used, tr := run(c)
		if v != nil && v.Class == class && lessTape(used, best) {
			best, bestV, bestTH, bestTr = used, v, th, tr
			return true
		}
		return false
	}
	for progress := true; progress && time.Now().Before(deadline); {
		progress = false
		// 1. truncate (binary search on the prefix length)
		lo, hi := 0, len(best)
		for lo < hi && time.Now().Before(deadline) {
			mid := (lo + hi) / 2
			if try(append([]uint32(nil), best[:mid]...)) {
				hi = len(best)
				if mid < hi {
					hi = mid
				}
				progress = true
			} else {
				lo = mid + 1
			}
		}
		// 2. delete chunks
		for _, sz := range []int{16, 8, 4, 2, 1} {
			for i := len(best) - sz; i >= 0; i-- {
				if i+sz > len(best) {
					continue
				}
				c := append(append([]uint32(nil), best[:i]...), best[i+sz:]...)
				if try(c) {
					progress = true
				}
			}
		}
		// 3. zero / lower single entries
		for i := 0; i < len(best); i++ {
			if best[i] == 0 {
				continue
			}
			c := append([]uint32(nil), best...)
			c[i] = 0
			if try(c) {
				progress = true
				continue
			}
			if best[i] > 1 {
				c = append([]uint32(nil), best...)
				c[i] = best[i] / 2
				if try(c) {
					progress = true
					continue
				}
				c = append([]uint32(nil), best...)
				c[i] = best[i] - 1
				if try(c) {
					progress = true
				}
			}
		}
	}
	res := &ReplayFile{Property: rf.Property, Seed: rf.Seed, Run: rf.Run, Tape: best, Crash: rf.Crash || os.Getenv("VERIF_CRASH") == "1",
		Violation: bestV, TraceHash: bestTH, Trace: bestTr, OrigLen: len(rf.Tape),
		Shrink: strings.TrimSpace(rf.Shrink + fmt.Sprintf(" %d candidates tried, tape %d -> %d", tries, len(used0), len(best)))}
	writeJSON(out, res)
}

// lessTape: shorter, or same length and lexicographically not larger with at least one smaller.
func lessTape(a, b []uint32) bool {
	if len(a) != len(b) {
		return len(a) < len(b)
	}
	for i := range a {
		if a[i] != b[i] {
			return a[i] < b[i]
		}
	}
	return false
}

// modeVerify re-executes a replay file and states whether it fails the same way.
func modeVerify(t *testing.T) {
	rf := loadReplay()
	run := pickRunner(t, rf)
	v, th, _, tr := run(rf.Tape)
	res := map[string]any{"reproduced": false, "violation": v, "trace_hash": th, "trace": tr}
	if v != nil && rf.Violation != nil && v.Class == rf.Violation.Class && (rf.TraceHash == "" || th == "" || th == rf.TraceHash || strings.HasPrefix(th, "unstable:") || strings.HasPrefix(rf.TraceHash, "unstable:")) {
		res["reproduced"] = true
	}
	if v != nil && rf.Violation == nil {
		res["reproduced"] = true
	}
	writeJSON(os.Getenv("VERIF_OUT"), res)
}
