package verifsim

// C06 — shard routing is a deterministic partition of series. Decided through its system-level
// consequences in W1 (the conservation scenario with a routing-centred swarm) plus direct Split
// calls on batches rebuilt from what the run actually carried.

import (
	"fmt"
	"strings"
	"sync"

	"github.com/atlassian/gostatsd"
)

func init() { register("C06", func() Property { return c06{} }) }

type c06 struct{}

func (c06) ID() string { return "C06" }
func (c06) Run(e *Env) {
	if e.Chance(1, 5) {
		c06Direct(e) // the BackendHandler alone, with cancellable dispatch contexts
		return
	}
	runConservation(e, "C06")
}

// coLocation remembers, across the runs of one worker process, whether two series were reported by
// the same shard for a given shard count. Routing that depends on anything but identity and count
// (batch content, map size, values, time) makes two runs disagree.
var coLocation sync.Map // "n|a|b" -> bool

func metricFor(k SeriesKey) *gostatsd.Metric {
	p := strings.SplitN(string(k), "|", 4)
	m := &gostatsd.Metric{Name: p[1], Source: gostatsd.Source(p[3]), Rate: 1, Value: 1, StringValue: "x"}
	if p[2] != "" {
		m.Tags = strings.Split(p[2], ",")
	}
	switch p[0] {
	case "counter":
		m.Type = gostatsd.COUNTER
	case "timer":
		m.Type = gostatsd.TIMER
	case "gauge":
		m.Type = gostatsd.GAUGE
	case "set":
		m.Type = gostatsd.SET
	}
	return m
}

func checkRouting(e *Env, workers int, ft *flushTracker, model Model) {
	keys := sortedKeys(ft.shardOf)
	// (3) cross-run determinism of the co-location relation
	for i, a := range keys {
		for _, b := range keys[i+1:] {
			same := ft.shardOf[a] == ft.shardOf[b]
			id := fmt.Sprintf("%d|%s|%s", workers, a, b)
			if prev, loaded := coLocation.LoadOrStore(id, same); loaded && prev.(bool) != same {
				e.Failf("C06/routing-differs-between-runs", "with %d shards, %s and %s were co-located=%v in an earlier run and %v now", workers, a, b, prev, same)
			}
			if same {
				e.Probe("colocated-pair")
			} else {
				e.Probe("separated-pair")
			}
		}
	}
	if len(keys) >= 2 && workers >= 2 {
		e.Overlap = true
	}
	// direct Split: the whole batch, and PRNG-chosen sub-batches, with the run's shard count and others
	bucketOf := func(ks []SeriesKey, n int) map[SeriesKey]int {
		mm := gostatsd.NewMetricMap(false)
		for _, k := range ks {
			mm.Receive(metricFor(k))
		}
		parts := mm.Split(n)
		if len(parts) != n {
			e.Failf("C06/split-count", "Split(%d) returned %d maps", n, len(parts))
		}
		out := map[SeriesKey]int{}
		for idx, part := range parts {
			obs, _ := Snapshot(part)
			for k := range obs {
				if prev, ok := out[k]; ok {
					e.Failf("C06/split-duplicates", "Split(%d): %s in shards %d and %d", n, k, prev, idx)
				}
				out[k] = idx
			}
		}
		for _, k := range ks {
			if _, ok := out[k]; !ok {
				e.Failf("C06/split-loses", "Split(%d): %s is in no shard", n, k)
			}
		}
		if len(out) != len(ks) {
			e.Failf("C06/split-invents", "Split(%d) of %d series yields %d", n, len(ks), len(out))
		}
		return out
	}
	// the statement covers arbitrary names, tags and sources including empty ones, which the datagram
	// path cannot produce: add a few such series for the direct checks
	synthetic := []SeriesKey{KeyOf("counter", "", nil, ""), KeyOf("gauge", "", []string{"a:1"}, "10.0.0.9"), KeyOf("timer", "", nil, "10.0.0.9"), KeyOf("set", "", nil, ""), KeyOf("counter", "only", nil, "")}
	withSyn := append(append([]SeriesKey(nil), keys...), synthetic...)
	fullSyn := bucketOf(withSyn, workers)
	for _, k := range synthetic {
		alone := bucketOf([]SeriesKey{k}, workers)
		if alone[k] != fullSyn[k] {
			e.Failf("C06/bucket-depends-on-batch", "with %d shards %q goes to shard %d alone and %d in a batch of %d series", workers, k, alone[k], fullSyn[k], len(withSyn))
		}
		var sub []SeriesKey
		for _, o := range withSyn {
			if o == k || e.Bool() {
				sub = append(sub, o)
			}
		}
		if part := bucketOf(sub, workers); part[k] != fullSyn[k] {
			e.Failf("C06/bucket-depends-on-batch", "with %d shards %q goes to shard %d in a sub-batch and %d in the full batch", workers, k, part[k], fullSyn[k])
		}
	}
	e.Probe("empty-name-series")
	full := bucketOf(keys, workers)
	// the server's own routing must agree with Split on identity+count
	for i, a := range keys {
		for _, b := range keys[i+1:] {
			if (full[a] == full[b]) != (ft.shardOf[a] == ft.shardOf[b]) {
				e.Failf("C06/server-routing-disagrees-with-split", "with %d shards Split co-locates %s,%s = %v but the aggregators reported them co-located = %v",
					workers, a, b, full[a] == full[b], ft.shardOf[a] == ft.shardOf[b])
			}
		}
	}
	for trial := 0; trial < 3 && len(keys) > 1; trial++ {
		var sub []SeriesKey
		for _, k := range keys {
			if e.Bool() {
				sub = append(sub, k)
			}
		}
		if len(sub) == 0 {
			continue
		}
		part := bucketOf(sub, workers)
		for _, k := range sub {
			if part[k] != full[k] {
				e.Failf("C06/bucket-depends-on-batch", "with %d shards %s goes to shard %d alone-ish and %d in the full batch", workers, k, part[k], full[k])
			}
		}
		e.Probe("sub-batch-split")
	}
	n2 := 1 + e.Draw(8)
	bucketOf(keys, n2)
}
