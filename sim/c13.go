package verifsim

// C13 — Kubernetes lookups reflect the current pod holding an IP.
// World W4: the real k8s Provider with client-go's informer/reflector/indexer running in the bubble
// on a fake clientset (the watch stream is the simulated network).

import (
	"context"
	"fmt"
	"regexp"
	"sort"
	"strings"
	"sync"
	"sync/atomic"
	"time"

	"github.com/sirupsen/logrus"
	core_v1 "k8s.io/api/core/v1"
	meta_v1 "k8s.io/apimachinery/pkg/apis/meta/v1"
	"k8s.io/apimachinery/pkg/runtime"
	utilruntime "k8s.io/apimachinery/pkg/util/runtime"
	"k8s.io/apimachinery/pkg/watch"
	"k8s.io/client-go/kubernetes/fake"
	k8stesting "k8s.io/client-go/testing"

	"github.com/atlassian/gostatsd"
	"github.com/atlassian/gostatsd/internal/verifhook"
	"github.com/atlassian/gostatsd/pkg/cachedinstances/k8s"
)

func init() {
	register("C13", func() Property { return c13{} })
	// apimachinery's default error handlers include a rate limiter whose "last error" time is the
	// real time of process start; inside a bubble (epoch 2000-01-01) it would sleep for decades of
	// simulated time on the first reported error (e.g. a closed watch). Keep the logging only.
	utilruntime.ErrorHandlers = []func(error){func(err error) { logrus.Debugf("k8s runtime error: %v", err) }}
}

type c13 struct{}

func (c13) ID() string { return "C13" }

type c13Pod struct {
	ns, name    string
	ip          string
	hostNetwork bool
	// hostIPMode: 0 the node's address is reported; 1 not reported yet; 2 the node has a second address
	hostIPMode  int
	phase       core_v1.PodPhase
	deleting    bool
	labels      map[string]string
	annotations map[string]string
	rv          int
}

const c13HostIP = "10.8.0.99"

func (p *c13Pod) hostIP() string {
	switch p.hostIPMode {
	case 1:
		return ""
	case 2:
		return "10.8.0.98"
	}
	return c13HostIP
}

func (p *c13Pod) object() *core_v1.Pod {
	o := &core_v1.Pod{
		ObjectMeta: meta_v1.ObjectMeta{Namespace: p.ns, Name: p.name, Labels: map[string]string{}, Annotations: map[string]string{}, ResourceVersion: fmt.Sprint(p.rv)},
		Spec:       core_v1.PodSpec{HostNetwork: p.hostNetwork, NodeName: "node1"},
		Status:     core_v1.PodStatus{PodIP: p.ip, HostIP: p.hostIP(), Phase: p.phase},
	}
	for k, v := range p.labels {
		o.Labels[k] = v
	}
	for k, v := range p.annotations {
		o.Annotations[k] = v
	}
	if p.deleting {
		t := meta_v1.NewTime(time.Now())
		o.DeletionTimestamp = &t
	}
	return o
}

func (p *c13Pod) indexable() bool {
	return p.ip != "" && p.phase != core_v1.PodSucceeded && p.phase != core_v1.PodFailed && !p.deleting && !p.hostNetwork && p.ip != c13HostIP
}

// refTagName: the tag name the statement prescribes for key under re ("" = key not matched).
func refTagName(re *regexp.Regexp, key string) string {
	if re == nil {
		return ""
	}
	m := re.FindStringSubmatchIndex(key)
	if m == nil {
		return ""
	}
	// "the regex's capture group named 'tag' when it matched non-empty text": a regex may carry the
	// name on several alternatives; whichever of them captured text gives the name
	for i, n := range re.SubexpNames() {
		if n == "tag" && m[2*i] >= 0 && m[2*i+1] > m[2*i] {
			return key[m[2*i]:m[2*i+1]]
		}
	}
	return key
}

func (c13) Run(e *Env) {
	e.ProbeDecl("host-network-pod-on-ordinary-address", "lookup-hit", "lookup-miss", "ip-reused-by-other-pod", "phase-only-update", "deletion-timestamp-update", "label-edit", "annotation-edit", "ip-changed", "ip-unset", "delete", "lookup-before-pod-exists",
		"host-network-pod", "tag-group-empty-falls-back-to-key", "regex-without-group", "via-ipsink", "racing-lookup", "partition", "tombstone-delete-after-relist", "changed-while-partitioned", "key-swapped-in-one-update", "two-changes-in-one-race-window", "informer-resync", "lookup-begun-while-another-is-parked", "label-and-annotation-gain-the-same-tag", "sink-requests-pile-up")
	labelRes := []string{"", "^app$", "^(?:app|team/(?P<tag>.+))$", "^tier(?P<tag>.*)$", "^nomatch$", "^team/(.+)$", "^(?:tier-(?P<tag>.+)|team/(?P<tag>.+)|note)$"}
	annRes := []string{k8s.DefaultAnnotationTagRegex, "", "^gostatsd\\.atlassian\\.com/(?P<tag>.*)$", "^note$", "^(?P<tag>x)?note$"}
	lr, ar := labelRes[e.Draw(len(labelRes))], annRes[e.Draw(len(annRes))]
	var labelRe, annRe *regexp.Regexp
	if lr != "" {
		labelRe = regexp.MustCompile(lr)
		if !strings.Contains(lr, "?P<tag>") {
			e.Probe("regex-without-group")
		}
	}
	if ar != "" {
		annRe = regexp.MustCompile(ar)
	}
	cs := fake.NewSimpleClientset()
	// the link to the API server: while partitioned, list and watch fail; cutting it closes the watch
	// stream. Changes made meanwhile are only seen through the relist after the link heals (deleted
	// pods arrive as DeletedFinalStateUnknown tombstones, changed ones as replacements).
	var partitioned atomic.Bool
	var lists, watches atomic.Int32
	var curWatch atomic.Pointer[watch.Interface]
	cs.PrependReactor("list", "pods", func(a k8stesting.Action) (bool, runtime.Object, error) {
		if partitioned.Load() {
			return true, nil, fmt.Errorf("simulated: connection refused")
		}
		lists.Add(1)
		return false, nil, nil
	})
	cs.PrependWatchReactor("pods", func(a k8stesting.Action) (bool, watch.Interface, error) {
		if partitioned.Load() {
			return true, nil, fmt.Errorf("simulated: connection refused")
		}
		w, err := cs.Tracker().Watch(a.GetResource(), a.GetNamespace())
		if err == nil {
			curWatch.Store(&w)
			watches.Add(1)
		}
		return true, w, err
	})
	prov, err := k8s.NewProvider(logrus.StandardLogger(), cs, k8s.PodInformerOptions{ResyncPeriod: 5 * time.Minute, WatchCluster: true}, annRe, labelRe)
	if err != nil {
		e.Failf("C13/harness", "NewProvider: %v", err)
	}
	racing := e.Chance(1, 4)
	faulty := e.Chance(1, 3) // run class with faults on the link to the API server
	yg := &yieldGate{gate: NewGate("yield"), anyObj: true, sites: map[string]bool{}}
	yg.off.Store(true) // armed only around the racing lookup: the driver's own lookups must not park
	if racing {
		// parked either after the informer was read (inside the computation) or after the computation, before memoising
		yg.sites[[]string{"k8s.instanceFromCache.before-store", "k8s.instanceFromInformer.after-read"}[e.Draw(2)]] = true
		verifhook.SetYield(yg.fn)
		defer verifhook.SetYield(nil)
	}
	ctx, cancel := context.WithCancel(context.Background())
	var wg sync.WaitGroup
	wg.Add(1)
	go func() { defer wg.Done(); prov.Run(ctx) }()
	defer func() {
		// the informer's goroutines end when ctx is done; give the reflector's back-off timers a chance
		cancel()
		yg.gate.Open(nil)
		wg.Wait()
		time.Sleep(2 * time.Second)
	}()
	e.Settle()
	time.Sleep(200 * time.Millisecond) // initial list+watch established
	e.Settle()
	e.Event("cfg label=%q annotation=%q racing=%v", lr, ar, racing)

	ips := []string{"10.8.0.1", "10.8.0.2", "10.8.0.3"}
	pods := map[string]*c13Pod{}
	nextPod := 0
	// "app" and "note" can be a label key and an annotation key (of the same pod or of different pods)
	labelKeys := []string{"app", "team/infra", "tier", "tier-x", "other", "note"}
	annKeys := []string{k8s.AnnotationPrefix + "svc", k8s.AnnotationPrefix, "note", "xnote", "unrelated", "app", k8s.AnnotationPrefix + "canary"}
	val := func(prefix string, n int) string {
		if e.Chance(1, 6) {
			return "" // marker labels / annotations without a value
		}
		return fmt.Sprintf("%s%d", prefix, e.Draw(n))
	}

	// what the provider has been able to observe: the state when the link was cut, while it is cut
	var observed map[string]*c13Pod
	view := func() map[string]*c13Pod {
		if observed != nil {
			return observed
		}
		return pods
	}
	holderIn := func(pods map[string]*c13Pod, ip string) *c13Pod {
		var names []string
		for n, p := range pods {
			if p.ip == ip && p.indexable() {
				names = append(names, n)
			}
		}
		sort.Strings(names)
		if len(names) == 0 {
			return nil
		}
		return pods[names[0]]
	}
	holder := func(ip string) *c13Pod { return holderIn(pods, ip) }
	expect := func(ip string) (string, []string, bool) {
		p := holderIn(view(), ip)
		if p == nil {
			return "", nil, false
		}
		var tags []string
		for k, v := range p.labels {
			if tn := refTagName(labelRe, k); tn != "" {
				tags = append(tags, tn+":"+v)
				if tn == k && labelRe != nil && labelRe.SubexpIndex("tag") >= 0 {
					e.Probe("tag-group-empty-falls-back-to-key")
				}
			}
		}
		for k, v := range p.annotations {
			if tn := refTagName(annRe, k); tn != "" {
				tags = append(tags, tn+":"+v)
				if tn == k && annRe != nil && annRe.SubexpIndex("tag") >= 0 {
					e.Probe("tag-group-empty-falls-back-to-key")
				}
			}
		}
		sort.Strings(tags)
		return p.ns + "/" + p.name, tags, true
	}
	judge := func(ip string, inst *gostatsd.Instance, how string) {
		id, tags, ok := expect(ip)
		if !ok {
			if inst != nil {
				e.Failf("C13/stale-or-phantom-answer", "%s(%s) = %s %v, but no running non-host-network pod holds that IP now", how, ip, inst.ID, inst.Tags)
			}
			e.Probe("lookup-miss")
			return
		}
		e.Probe("lookup-hit")
		if inst == nil {
			e.Failf("C13/lookup-misses-current-pod", "%s(%s) finds nothing, but pod %s holds that IP (running, not host-network, not deleting)", how, ip, id)
		}
		if string(inst.ID) != id {
			e.Failf("C13/wrong-pod", "%s(%s) = %s, the pod holding that IP now is %s", how, ip, inst.ID, id)
		}
		got := append([]string(nil), inst.Tags...)
		sort.Strings(got)
		if strings.Join(got, "|") != strings.Join(tags, "|") {
			e.Failf("C13/wrong-tags", "%s(%s) = %s with tags %v, the pod's current labels/annotations give %v (label regex %q, annotation regex %q)", how, ip, inst.ID, got, tags, lr, ar)
		}
	}
	lookup := func(ip string, viaSink bool) *gostatsd.Instance {
		if !viaSink {
			inst, _ := prov.Peek(gostatsd.Source(ip))
			return inst
		}
		e.Probe("via-ipsink")
		prov.IpSink() <- gostatsd.Source(ip)
		info := <-prov.InfoSource()
		if string(info.IP) != ip {
			e.Failf("C13/answer-for-other-ip", "asked for %s, answer is for %s", ip, info.IP)
		}
		return info.Instance
	}
	apply := func(p *c13Pod, verb string) {
		p.rv++
		var err error
		switch verb {
		case "create":
			_, err = cs.CoreV1().Pods(p.ns).Create(ctx, p.object(), meta_v1.CreateOptions{})
		case "update":
			_, err = cs.CoreV1().Pods(p.ns).Update(ctx, p.object(), meta_v1.UpdateOptions{})
		case "delete":
			err = cs.CoreV1().Pods(p.ns).Delete(ctx, p.name, meta_v1.DeleteOptions{})
		}
		if err != nil {
			e.Failf("C13/harness", "%s %s: %v", verb, p.name, err)
		}
		e.Settle()
		time.Sleep(10 * time.Millisecond) // let the watch event travel through reflector, FIFO and handlers
		e.Settle()
	}
	freeIP := func() string {
		var free []string
		for _, ip := range ips {
			if holder(ip) == nil {
				free = append(free, ip)
			}
		}
		if len(free) == 0 {
			return ""
		}
		return free[e.Draw(len(free))]
	}
	everHeld := map[string]string{}
	sortedPods := func() []string {
		var ns []string
		for n := range pods {
			ns = append(ns, n)
		}
		sort.Strings(ns)
		return ns
	}

	heal := func() {
		partitioned.Store(false)
		l0, w0 := lists.Load(), watches.Load()
		e.Event("link healed")
		// the reflector retries with back-off; "observed" means after its relist and new watch
		for i := 0; lists.Load() == l0 || watches.Load() == w0; i++ {
			if i > 200 {
				e.Failf("C13/no-relist-after-heal", "the link to the API server has been up for %d simulated seconds and the informer has not listed and watched again (lists %d->%d, watches %d->%d)", i, l0, lists.Load(), w0, watches.Load())
			}
			time.Sleep(time.Second)
			e.Settle()
		}
		time.Sleep(50 * time.Millisecond)
		e.Settle()
		var gone, changed int
		for n := range observed {
			if _, ok := pods[n]; !ok {
				gone++
			} else if observed[n].rv != pods[n].rv {
				changed++
			}
		}
		if gone > 0 {
			e.Probe("tombstone-delete-after-relist")
		}
		if changed > 0 {
			e.Probe("changed-while-partitioned")
		}
		observed = nil
		e.Overlap = true
	}
	resynced := false
	nSteps := e.Range(3, 25*e.Depth())
	for step := 0; step < nSteps; step++ {
		e.Settle()
		names := sortedPods()
		nElig, nHeld := 0, 0
		for _, n := range names {
			if pods[n].indexable() {
				nElig++
			}
		}
		for _, ip := range ips {
			if _, ok := everHeld[ip]; ok {
				nHeld++
			}
		}
		e.State("pods=%d eligible=%d ips-ever-held=%d link-cut=%v", len(names), nElig, nHeld, observed != nil)
		canAdd := 0
		if len(names) < 4 {
			canAdd = 3
		}
		canCut, canHeal := 0, 0
		if faulty && observed == nil && watches.Load() > 0 {
			canCut = 1
		}
		if observed != nil {
			canHeal = 2
		}
		canResync := 0
		if observed == nil && !resynced && len(names) > 0 {
			canResync = 1
		}
		switch e.Weighted("c13", []int{canAdd, 4 * minInt(1, len(names)), 1 * minInt(1, len(names)), 5, canCut, canHeal, canResync}) {
		case 6:
			// the informer's periodic resync (5 min) replays every pod to the handlers as an update
			resynced = true
			e.Probe("informer-resync")
			e.Event("6 minutes pass (informer resync)")
			time.Sleep(6 * time.Minute)
			e.Settle()
		case 4:
			// cut the link: the provider keeps answering from what it had observed
			observed = map[string]*c13Pod{}
			for n, p := range pods {
				cp := *p
				cp.labels, cp.annotations = map[string]string{}, map[string]string{}
				for k, v := range p.labels {
					cp.labels[k] = v
				}
				for k, v := range p.annotations {
					cp.annotations[k] = v
				}
				observed[n] = &cp
			}
			partitioned.Store(true)
			(*curWatch.Load()).Stop()
			e.Fault("watch-stream-cut")
			e.Probe("partition")
			e.Event("link to the API server cut")
			e.Settle()
			time.Sleep(time.Duration(e.Draw(4)) * time.Second)
		case 5:
			heal()
		case 0:
			nextPod++
			p := &c13Pod{ns: []string{"default", "prod"}[e.Draw(2)], name: fmt.Sprintf("pod%d", nextPod), phase: []core_v1.PodPhase{core_v1.PodPending, core_v1.PodRunning, core_v1.PodRunning}[e.Draw(3)],
				labels: map[string]string{}, annotations: map[string]string{}}
			if e.Chance(2, 3) {
				p.ip = freeIP()
			}
			if e.Chance(1, 6) {
				p.hostNetwork = e.Chance(2, 3) // otherwise only recognisable by its address being the node's
				p.ip = c13HostIP
				e.Probe("host-network-pod")
			} else if e.Chance(1, 8) {
				// declared host-network, but the address it reports is not the one the status names as the
				// node's (not reported yet, or a node with two addresses): only the spec says what it is
				p.hostNetwork = true
				p.hostIPMode = 1 + e.Draw(2)
				p.ip = freeIP()
				if e.Bool() && len(ips) > 0 {
					p.ip = ips[e.Draw(len(ips))] // possibly an address an ordinary pod holds or held
				}
				e.Probe("host-network-pod-on-ordinary-address")
			}
			for i, n := 0, e.Draw(3); i < n; i++ {
				p.labels[labelKeys[e.Draw(len(labelKeys))]] = val("l", 3)
			}
			for i, n := 0, e.Draw(3); i < n; i++ {
				p.annotations[annKeys[e.Draw(len(annKeys))]] = val("a", 3)
			}
			pods[p.ns+"/"+p.name] = p
			if p.indexable() {
				if prev, ok := everHeld[p.ip]; ok && prev != p.name {
					e.Probe("ip-reused-by-other-pod")
				}
				everHeld[p.ip] = p.name
			}
			e.Event("add %s/%s ip=%q phase=%s hostnet=%v labels=%v ann=%v", p.ns, p.name, p.ip, p.phase, p.hostNetwork, p.labels, p.annotations)
			apply(p, "create")
		case 1:
			p := pods[names[e.Draw(len(names))]]
			switch e.Draw(9) {
			case 0:
				old := p.phase
				p.phase = []core_v1.PodPhase{core_v1.PodPending, core_v1.PodRunning, core_v1.PodSucceeded, core_v1.PodFailed}[e.Draw(4)]
				if p.indexable() {
					// a finished pod coming back must not collide with the pod that took over its IP
					// (the property speaks of pods with distinct IPs)
					for n, o := range pods {
						if o != p && o.ip == p.ip && o.indexable() {
							_ = n
							p.phase = old
						}
					}
				}
				e.Probe("phase-only-update")
			case 1:
				p.deleting = true
				e.Probe("deletion-timestamp-update")
			case 2:
				p.labels[labelKeys[e.Draw(len(labelKeys))]] = val("l", 5)
				e.Probe("label-edit")
			case 3:
				p.annotations[annKeys[e.Draw(len(annKeys))]] = val("a", 5)
				e.Probe("annotation-edit")
			case 4:
				if !p.hostNetwork {
					old := p.ip
					p.ip = ""
					if ip := freeIP(); ip != "" {
						p.ip = ip
					}
					if p.ip != old {
						e.Probe("ip-changed")
					}
				}
			case 5:
				if !p.hostNetwork {
					p.ip = ""
					e.Probe("ip-unset")
				}
			case 6:
				var ks []string
				for k := range p.labels {
					ks = append(ks, k)
				}
				sort.Strings(ks)
				if len(ks) > 0 {
					delete(p.labels, ks[0])
				}
			case 8:
				// one update that gives a label and an annotation the same key and the same value: where both
				// regexes match, the pod gains two identical tags at once
				k := []string{"app", "note"}[e.Draw(2)]
				v := val("both", 4)
				p.labels[k], p.annotations[k] = v, v
				e.Probe("label-and-annotation-gain-the-same-tag")
			case 7:
				// one update that removes a key and adds another (same number of keys before and after)
				m, keys, pre := p.annotations, annKeys, "a"
				if e.Bool() {
					m, keys, pre = p.labels, labelKeys, "l"
				}
				var ks []string
				for k := range m {
					ks = append(ks, k)
				}
				sort.Strings(ks)
				if len(ks) > 0 {
					delete(m, ks[e.Draw(len(ks))])
					for i := 0; i < len(keys); i++ {
						k := keys[(i+e.Draw(len(keys)))%len(keys)]
						if _, ok := m[k]; !ok {
							m[k] = val(pre, 5)
							break
						}
					}
					e.Probe("key-swapped-in-one-update")
				}
			}
			if p.indexable() {
				if prev, ok := everHeld[p.ip]; ok && prev != p.name {
					e.Probe("ip-reused-by-other-pod")
				}
				everHeld[p.ip] = p.name
			}
			e.Event("update %s/%s ip=%q phase=%s deleting=%v labels=%v ann=%v", p.ns, p.name, p.ip, p.phase, p.deleting, p.labels, p.annotations)
			apply(p, "update")
		case 2:
			n := names[e.Draw(len(names))]
			p := pods[n]
			delete(pods, n)
			e.Probe("delete")
			e.Event("delete %s", n)
			apply(p, "delete")
		case 3:
			ip := ips[e.Draw(len(ips))]
			if e.Chance(1, 8) {
				ip = c13HostIP // the node's own address: pods using it are host-network pods, whatever their spec says
			}
			if _, ok := everHeld[ip]; !ok {
				e.Probe("lookup-before-pod-exists")
			}
			via := e.Bool()
			if racing && observed == nil && e.Chance(1, 2) && len(names) > 0 {
				// racing variant: a lookup is parked between reading the informer and memoising its
				// answer while a change to the pod holding that IP is observed; the verdict is taken
				// from a later lookup, after everything is quiescent
				done := make(chan *gostatsd.Instance, 1)
				yg.off.Store(false)
				wg.Add(1)
				go func() { defer wg.Done(); inst, _ := prov.Peek(gostatsd.Source(ip)); done <- inst }()
				e.Settle()
				yg.off.Store(true)
				if yg.gate.Len() > 0 {
					e.Probe("racing-lookup")
					e.Fault("lookup-preempted-before-memoising")
					e.Overlap = true
					if h := holder(ip); h != nil {
						switch e.Draw(3) {
						case 0:
							h.labels["app"] = fmt.Sprintf("raced%d", step)
							e.Event("racing update %s", h.name)
							apply(h, "update")
						case 1:
							h.phase = core_v1.PodSucceeded
							e.Event("racing finish %s", h.name)
							apply(h, "update")
						case 2:
							delete(pods, h.ns+"/"+h.name)
							e.Event("racing delete %s", h.name)
							apply(h, "delete")
						}
					}
					if e.Bool() {
						// a second, unrelated indexable pod changes while the lookup is still parked
						for _, n := range sortedPods() {
							o := pods[n]
							if o.indexable() && o.ip != ip {
								o.labels["app"] = fmt.Sprintf("other%d", step)
								e.Event("racing update of unrelated %s", o.name)
								e.Probe("two-changes-in-one-race-window")
								apply(o, "update")
								break
							}
						}
					}
					// a second lookup of the same address begins only now, after the change has been
					// observed, while the first one is still parked: it has no excuse for an old answer
					var done2 chan *gostatsd.Instance
					if e.Bool() {
						done2 = make(chan *gostatsd.Instance, 1)
						wg.Add(1)
						go func() { defer wg.Done(); inst, _ := prov.Peek(gostatsd.Source(ip)); done2 <- inst }()
						e.Settle()
						e.Probe("lookup-begun-while-another-is-parked")
					}
					for _, p := range yg.gate.Parked() {
						yg.gate.Release(p, nil)
					}
					if done2 != nil {
						e.Settle()
						select {
						case inst2 := <-done2:
							e.Event("lookup %s begun during the race -> %v", ip, inst2 != nil)
							judge(ip, inst2, "Peek begun after the change was observed")
						default:
							e.Failf("C13/lookup-never-returns", "a lookup of %s begun while another one was parked has not returned although nothing is parked any more", ip)
						}
					}
				}
				<-done // the answer given during the race may be old or new: not judged
				e.Settle()
			}
			if h := holder(ip); via && h != nil && observed == nil && e.Chance(1, 4) {
				// requests pile up on the sink while nobody reads the answers: one for another address,
				// one for this address, the pod changes, then one more for this address. Of the two answers
				// for this address at least the one requested after the change must describe the pod as it is now.
				e.Probe("sink-requests-pile-up")
				other := ips[(e.Draw(len(ips)-1)+1+indexOf(ips, ip))%len(ips)]
				prov.IpSink() <- gostatsd.Source(other)
				e.Settle()
				prov.IpSink() <- gostatsd.Source(ip)
				e.Settle()
				h.labels["app"] = fmt.Sprintf("piled%d", step)
				e.Event("update %s while answers wait", h.name)
				apply(h, "update")
				prov.IpSink() <- gostatsd.Source(ip)
				e.Settle()
				var forIP []*gostatsd.Instance
				for i := 0; i < 3; i++ {
					info := <-prov.InfoSource()
					if string(info.IP) == ip {
						forIP = append(forIP, info.Instance)
					}
				}
				_, wantTags, ok := expect(ip)
				fresh := false
				for _, inst := range forIP {
					if !ok {
						fresh = fresh || inst == nil
						continue
					}
					if inst != nil {
						got := append([]string(nil), inst.Tags...)
						sort.Strings(got)
						fresh = fresh || strings.Join(got, "|") == strings.Join(wantTags, "|")
					}
				}
				if len(forIP) != 2 || !fresh {
					e.Failf("C13/stale-or-phantom-answer", "two lookups of %s were requested on the sink, the second after its pod's update had been observed; %d answers came back and none describes the pod as it is now (want tags %v)", ip, len(forIP), wantTags)
				}
			}
			inst := lookup(ip, via)
			e.Event("lookup %s via-sink=%v -> %v", ip, via, inst != nil)
			judge(ip, inst, map[bool]string{false: "Peek", true: "IpSink lookup"}[via])
		}
	}
	e.Settle()
	if observed != nil {
		heal()
	}
	for _, ip := range ips {
		inst, _ := prov.Peek(gostatsd.Source(ip))
		judge(ip, inst, "final Peek")
	}
}

func indexOf(xs []string, x string) int {
	for i, v := range xs {
		if v == x {
			return i
		}
	}
	return 0
}
