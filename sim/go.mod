module github.com/atlassian/gostatsd/verifsim

go 1.26

require (
	github.com/atlassian/gostatsd v0.0.0
	github.com/aws/aws-sdk-go-v2/service/cloudwatch v1.42.3
	github.com/pierrec/lz4/v4 v4.1.19
	github.com/sirupsen/logrus v1.9.0
	github.com/spf13/viper v1.17.0
	github.com/tilinna/clock v1.1.0
	go.opentelemetry.io/proto/otlp v1.0.0
	golang.org/x/time v0.3.0
	google.golang.org/genproto/googleapis/api v0.0.0-20240227224415-6ceb2ff114de
	google.golang.org/genproto/googleapis/rpc v0.0.0-20240227224415-6ceb2ff114de
	google.golang.org/protobuf v1.34.1
)

require (
	github.com/ash2k/stager v0.0.0-20170622123058-6e9c7b0eacd4 // indirect
	github.com/aws/aws-sdk-go-v2 v1.32.3 // indirect
	github.com/aws/aws-sdk-go-v2/config v1.26.2 // indirect
	github.com/aws/aws-sdk-go-v2/credentials v1.16.13 // indirect
	github.com/aws/aws-sdk-go-v2/feature/ec2/imds v1.14.10 // indirect
	github.com/aws/aws-sdk-go-v2/internal/configsources v1.3.22 // indirect
	github.com/aws/aws-sdk-go-v2/internal/endpoints/v2 v2.6.22 // indirect
	github.com/aws/aws-sdk-go-v2/internal/ini v1.7.2 // indirect
	github.com/aws/aws-sdk-go-v2/service/internal/accept-encoding v1.12.0 // indirect
	github.com/aws/aws-sdk-go-v2/service/internal/presigned-url v1.12.3 // indirect
	github.com/aws/aws-sdk-go-v2/service/sso v1.18.5 // indirect
	github.com/aws/aws-sdk-go-v2/service/ssooidc v1.21.5 // indirect
	github.com/aws/aws-sdk-go-v2/service/sts v1.26.6 // indirect
	github.com/aws/smithy-go v1.22.0 // indirect
	github.com/cenkalti/backoff v2.2.1+incompatible // indirect
	github.com/fsnotify/fsnotify v1.6.0 // indirect
	github.com/gorilla/mux v1.8.0 // indirect
	github.com/grpc-ecosystem/grpc-gateway/v2 v2.16.0 // indirect
	github.com/hashicorp/hcl v1.0.0 // indirect
	github.com/jmespath/go-jmespath v0.4.0 // indirect
	github.com/json-iterator/go v1.1.12 // indirect
	github.com/libp2p/go-reuseport v0.2.0 // indirect
	github.com/magiconair/properties v1.8.7 // indirect
	github.com/mitchellh/mapstructure v1.5.0 // indirect
	github.com/modern-go/concurrent v0.0.0-20180306012644-bacd9c7ef1dd // indirect
	github.com/modern-go/reflect2 v1.0.2 // indirect
	github.com/pelletier/go-toml/v2 v2.1.0 // indirect
	github.com/sagikazarmark/slog-shim v0.1.0 // indirect
	github.com/spf13/afero v1.10.0 // indirect
	github.com/spf13/cast v1.5.1 // indirect
	github.com/spf13/pflag v1.0.5 // indirect
	github.com/subosito/gotenv v1.6.0 // indirect
	go.uber.org/multierr v1.11.0 // indirect
	golang.org/x/exp v0.0.0-20230905200255-921286631fa9 // indirect
	golang.org/x/net v0.35.0 // indirect
	golang.org/x/sync v0.11.0 // indirect
	golang.org/x/sys v0.30.0 // indirect
	golang.org/x/text v0.22.0 // indirect
	google.golang.org/grpc v1.63.2 // indirect
	gopkg.in/ini.v1 v1.67.0 // indirect
	gopkg.in/yaml.v3 v3.0.1 // indirect
)

replace github.com/atlassian/gostatsd => /repo
