package verifsim

// C17 — backend payloads contain every series exactly once and are well formed.
// World W6 with decoding endpoints: a flushed map from the real aggregator is handed to a real backend
// whose payloads are collected at the simulated transport, decoded by the independent decoders of
// w6_decode.go and compared with the map, with a second run of the same backend at the default batch
// size, and (statsd relay) with what gostatsd's own parser reads back.

import (
	"bytes"
	"context"
	"fmt"
	"math"
	"sort"
	"strings"
	"sync"
	"time"

	"github.com/atlassian/gostatsd"
	"github.com/atlassian/gostatsd/internal/lexer"
	"github.com/atlassian/gostatsd/internal/pool"
	"github.com/atlassian/gostatsd/pkg/statsd"
)

func init() { register("C17", func() Property { return c17{} }) }

type c17 struct{}

func (c17) ID() string { return "C17" }

type c17Collected struct {
	points   []WirePoint
	perUnit  []int    // points per payload (request / PutMetricData call)
	writes   [][]byte // socket writes
	payloads int
}

// c17Send runs one SendMetricsAsync of a freshly built backend against always-succeeding transports
// and returns everything that reached the wire, decoded.
func c17Send(e *Env, spec BackendSpec, mm *gostatsd.MetricMap, events []*gostatsd.Event) *c17Collected {
	fab, conns, cw := NewFabric(), NewConnSim(), NewCWSim()
	bb, err := BuildBackend(spec, fab, conns, cw)
	if err != nil {
		e.Failf("C17/harness", "BuildBackend(%+v): %v", spec, err)
	}
	ctx, cancel := context.WithCancel(context.Background())
	var wg sync.WaitGroup
	if bb.Run != nil {
		wg.Add(1)
		go func() { defer wg.Done(); bb.Run(ctx) }()
	}
	defer func() {
		cancel()
		fab.Gate.Open(nil)
		conns.DialGate.Open(nil)
		conns.WriteGate.Open(nil)
		cw.Gate.Open(nil)
		wg.Wait()
		if bb.ClientTimeout > 0 {
			time.Sleep(bb.ClientTimeout + time.Second)
		}
	}()
	var mu sync.Mutex
	cbs, returned := 0, false
	var cbErrs []error
	wg.Add(1)
	go func() {
		defer wg.Done()
		bb.Backend.SendMetricsAsync(ctx, mm, func(errs []error) {
			mu.Lock()
			cbs++
			for _, er := range errs {
				if er != nil {
					cbErrs = append(cbErrs, er)
				}
			}
			mu.Unlock()
		})
		mu.Lock()
		returned = true
		mu.Unlock()
	}()
	release := func() bool {
		any := false
		for _, p := range fab.Gate.Parked() {
			fab.Gate.Release(p, HTTPOutcome{Kind: "status", Status: bb.OKStatus})
			any = true
		}
		for _, p := range conns.DialGate.Parked() {
			conns.DialGate.Release(p, ConnOutcome{})
			any = true
		}
		for _, p := range conns.WriteGate.Parked() {
			conns.WriteGate.Release(p, WriteOutcome{N: -1})
			any = true
		}
		for _, p := range cw.Gate.Parked() {
			cw.Gate.Release(p, CWOutcome{})
			any = true
		}
		return any
	}
	for i := 0; ; i++ {
		e.Settle()
		mu.Lock()
		done := returned && cbs >= 1
		mu.Unlock()
		if done {
			break
		}
		if !release() {
			if i > 300 {
				e.Failf("C17/flush-did-not-complete", "%s: SendMetricsAsync did not complete although every transport operation succeeds", spec.Kind)
			}
			time.Sleep(100 * time.Millisecond)
		}
	}
	if len(cbErrs) > 0 {
		e.Failf("C17/flush-error-on-healthy-transport", "%s: flush reported %v although every transport operation succeeded", spec.Kind, cbErrs)
	}
	for _, ev := range events {
		evDone := make(chan error, 1)
		wg.Add(1)
		go func(ev *gostatsd.Event) { defer wg.Done(); evDone <- bb.Backend.SendEvent(ctx, ev) }(ev)
		for i := 0; i < 100; i++ {
			e.Settle()
			select {
			case <-evDone:
				i = 1000
			default:
				if !release() {
					time.Sleep(50 * time.Millisecond)
				}
			}
		}
	}
	out := &c17Collected{}
	for i := 0; i < fab.NReqs(); i++ {
		r := fab.Req(i)
		if r.Path != bb.Path {
			continue // event endpoints etc.
		}
		pts, err := DecodeHTTP(spec.Kind, r)
		if err != nil {
			body := r.Body
			if len(body) > 300 {
				body = body[:300]
			}
			e.Failf("C17/payload-not-valid:"+spec.Kind, "%s: request %d (%d bytes, Content-Encoding %q) is not a valid payload: %v\n%q", spec.Kind, i, len(r.Body), r.Header.Get("Content-Encoding"), err, body)
		}
		out.points = append(out.points, pts...)
		units := len(pts)
		if strings.HasPrefix(spec.Kind, "influxdb") {
			// one line = one measurement + tag set (it may carry several fields)
			lines := map[string]bool{}
			for _, p := range pts {
				lines[p.Name+"|"+strings.Join(p.Tags, ",")] = true
			}
			units = len(lines)
		}
		if strings.HasPrefix(spec.Kind, "otlp") {
			// one OTLP metric = one name (within a resource); distinct names is a lower bound of the
			// number of metrics the request carries
			names := map[string]bool{}
			for _, p := range pts {
				names[p.Name] = true
			}
			units = len(names)
		}
		out.perUnit = append(out.perUnit, units)
		out.payloads++
	}
	for _, w := range conns.WrittenChunks() {
		out.writes = append(out.writes, w)
	}
	if b := conns.AllWritten(); len(b) > 0 && !strings.HasPrefix(spec.Kind, "statsdaemon") {
		pts, err := DecodeConn(spec.Kind, b)
		if err != nil {
			e.Failf("C17/payload-not-valid:"+spec.Kind, "%s: socket stream is not valid: %v", spec.Kind, err)
		}
		out.points = append(out.points, pts...)
		out.payloads += len(out.writes)
	}
	for i := 0; i < cw.NInputs(); i++ {
		pts, err := DecodeCW(cw.Input(i))
		if err != nil {
			e.Failf("C17/payload-not-valid:"+spec.Kind, "%s: PutMetricData input %d is not valid: %v", spec.Kind, i, err)
		}
		out.points = append(out.points, pts...)
		out.perUnit = append(out.perUnit, len(pts))
		out.payloads++
	}
	return out
}

func canonPoint(p WirePoint) string {
	t := append([]string(nil), p.Tags...)
	sort.Strings(t)
	v := fmt.Sprintf("%.9g", p.Value)
	return fmt.Sprintf("%s|%s|%v|%s|%s|%s|%s", p.Name, p.Field, t, p.Host, v, p.Type, p.Str)
}

func hasValue(pts []WirePoint, v float64, tol float64) bool {
	for _, p := range pts {
		if approx(p.Value, v, tol) {
			return true
		}
	}
	return false
}

func (c17) Run(e *Env) {
	e.ProbeDecl("kind-graphite", "kind-statsdaemon", "kind-datadog", "kind-influxdb", "kind-newrelic", "kind-otlp", "kind-cloudwatch", "small-batch-many-payloads", "sub-metrics-masked", "histogram-timer", "relay-roundtrip",
		"relay-event-roundtrip", "relay-datagram-limit", "compressed", "idle-series", "negative-percentile")
	kinds := BackendKinds[:14] // stdout and null put nothing on a wire
	kind := kinds[e.Choose("kind", len(kinds))]
	e.Probe("kind-" + strings.SplitN(kind, "-", 2)[0])
	spec := BackendSpec{Kind: kind, BatchSize: []int{0, 1, 2, 3, 5, 21}[e.Choose("batch", 6)], Compress: e.Choose("compress", 2) == 1, MaxRequests: 2, FlushInterval: time.Second}
	if strings.HasPrefix(kind, "otlp") {
		spec.ResourceKeys = [][]string{nil, {"host"}, {"env", "host"}, {"team"}}[e.Draw(4)]
	}
	if spec.Compress {
		e.Probe("compressed")
	}
	if e.Chance(1, 3) {
		spec.Disabled = gostatsd.TimerSubtypes{Lower: e.Bool(), Upper: e.Bool(), Count: e.Bool(), CountPerSecond: e.Bool(), Mean: e.Bool(), Median: e.Bool(), StdDev: e.Bool(), Sum: e.Bool(), SumSquares: e.Bool(),
			LowerPct: e.Bool(), UpperPct: e.Bool(), CountPct: e.Bool(), MeanPct: e.Bool(), SumPct: e.Bool(), SumSquaresPct: e.Bool()}
		e.Probe("sub-metrics-masked")
	}
	pcts := [][]float64{{90}, {}, {-90, 50}, {99}}[e.Draw(4)]
	for _, p := range pcts {
		if p < 0 {
			e.Probe("negative-percentile")
		}
	}
	histLimit := []uint32{math.MaxUint32, 2, 0}[e.Draw(3)]
	agg := statsd.NewMetricAggregator(pcts, time.Hour, time.Hour, time.Hour, time.Hour, spec.Disabled, histLimit)

	// the flushed map: unique name per series, k:v tags from [A-Za-z0-9_.:/-], values with <= 6 decimals
	tagPoolC17 := []string{"env:prod", "az:a-1", "path:/x/y", "v:1.2", "team:core_infra", "vhost:web-1", "db_host:db.internal", "hostname:h1", "name:host"}
	nSeries := 1 + e.Choose("series", 9)
	roundValues := e.Chance(1, 4)
	in := gostatsd.NewMetricMap(false)
	ts := gostatsd.Nanotime(time.Now().UnixNano())
	type srs struct {
		name, kind, source string
		tags               []string
		hist               bool
	}
	var series []srs
	for i := 0; i < nSeries; i++ {
		s := srs{name: fmt.Sprintf("c17%c%d.m-x_y", 'a'+rune(i), i), kind: []string{"counter", "gauge", "timer", "timer", "set"}[e.Draw(5)], source: []string{"10.0.0.7", "10.0.0.7", "", "2001:db8::7"}[e.Draw(4)]}
		for j, n := 0, e.Draw(4); j < n; j++ {
			t := tagPoolC17[e.Draw(len(tagPoolC17))]
			dup := false
			for _, o := range s.tags {
				if strings.SplitN(o, ":", 2)[0] == strings.SplitN(t, ":", 2)[0] {
					dup = true
				}
			}
			if !dup {
				s.tags = append(s.tags, t)
			}
		}
		if s.kind == "timer" && e.Chance(1, 4) {
			s.hist = true
			s.tags = append(s.tags, "gsd_histogram:10_100_1000")
			e.Probe("histogram-timer")
		}
		if strings.HasPrefix(kind, "influxdb") && len(series) > 0 && e.Chance(1, 3) {
			// twin of the previous series: no source, the source as a tag instead (what a relay tier
			// produces); the two have one and the same tags key
			if prev := series[len(series)-1]; prev.source != "" && len(prev.tags) > 0 && !prev.hist && !s.hist {
				s.source = ""
				s.tags = append(append([]string(nil), prev.tags...), "s:"+prev.source)
				e.Probe("source-as-tag-twin")
			}
		}
		series = append(series, s)
		maxVals := 5
		if strings.HasPrefix(kind, "statsdaemon") {
			maxVals = 60 // many relay lines per flush, so that datagram boundaries (and exact fits) are met
		}
		for j, n := 0, e.Range(0, maxVals); j < n || (j == 0 && !e.Chance(1, 6)); j++ {
			m := &gostatsd.Metric{Name: s.name, Tags: append(gostatsd.Tags(nil), s.tags...), Source: gostatsd.Source(s.source), Rate: 1, Timestamp: ts}
			val := float64(e.Draw(2000000)) / 1000
			if e.Chance(1, 5) {
				val = -val
			}
			if roundValues {
				val = []float64{0, 1, 5, 1000}[e.Draw(4)] // whole numbers, met again and again across series
			}
			if s.kind == "gauge" && e.Chance(1, 15) {
				val = []float64{9223372036854775807, -9223372036854775808, 4294967296, 18446744073709551615}[e.Draw(4)] // 2^63: the usual "unlimited" sentinel
				e.Probe("gauge-at-an-integer-boundary")
			}
			switch s.kind {
			case "counter":
				m.Type, m.Value = gostatsd.COUNTER, float64(int(val))
			case "gauge":
				m.Type, m.Value = gostatsd.GAUGE, val
			case "timer":
				m.Type, m.Value = gostatsd.TIMER, val
			case "set":
				m.Type, m.StringValue = gostatsd.SET, fmt.Sprintf("member-%d", e.Draw(maxVals+1))
			}
			in.Receive(m)
		}
	}
	agg.ReceiveMap(in)
	agg.Flush(time.Second)
	if e.Chance(1, 4) {
		// an idle flush in between: persisted series with zero values
		agg.Reset()
		agg.Flush(time.Second)
		e.Probe("idle-series")
	}
	var flushed *gostatsd.MetricMap
	agg.Process(func(mm *gostatsd.MetricMap) { flushed = deepCopyMap(mm) })
	// deepCopyMap keeps the computed statistics: copy the rest by hand
	agg.Process(func(mm *gostatsd.MetricMap) {
		mm.Timers.Each(func(n, tk string, t gostatsd.Timer) {
			c := t
			c.Values = append([]float64(nil), t.Values...)
			c.Percentiles = append(gostatsd.Percentiles(nil), t.Percentiles...)
			c.Tags = t.Tags.Copy()
			if t.Histogram != nil {
				c.Histogram = map[gostatsd.HistogramThreshold]int{}
				for k, v := range t.Histogram {
					c.Histogram[k] = v
				}
			}
			flushed.Timers[n][tk] = c
		})
	})
	obs, _ := Snapshot(flushed)
	{
		nk := map[string]int{}
		for _, o := range obs {
			nk[o.Kind]++
			if o.Kind == "timer" && o.Timer.Histogram != nil {
				nk["hist"]++
			}
		}
		e.State("kind=%s batch=%d compress=%v masked=%v pcts=%d histlimit=%d counters=%d gauges=%d timers=%d hist=%d sets=%d", kind, spec.BatchSize, spec.Compress, spec.Disabled != gostatsd.TimerSubtypes{}, len(pcts), histLimit, nk["counter"], nk["gauge"], nk["timer"], nk["hist"], nk["set"])
	}
	e.Event("cfg kind=%s batch=%d compress=%v disabled=%+v pcts=%v histlimit=%d series=%d", kind, spec.BatchSize, spec.Compress, spec.Disabled, pcts, histLimit, len(obs))
	e.Event("map %s", CanonObs(obs))
	if len(obs) == 0 {
		return
	}

	// events for the relay round trip
	var events []*gostatsd.Event
	if strings.HasPrefix(kind, "statsdaemon") {
		for i, n := 0, e.Draw(3); i < n; i++ {
			ev := &gostatsd.Event{Title: fmt.Sprintf([]string{"ev-%d title", "ev-%d títle ✓", "ev-%d"}[e.Draw(3)], i), Text: []string{"text", "two\nlines", "a|b", "naïve café ✓", ""}[e.Draw(5)], DateHappened: int64(e.Draw(2)) * 1700000000,
				Source: gostatsd.Source([]string{"", "10.0.0.9"}[e.Draw(2)]), AggregationKey: []string{"", "k1"}[e.Draw(2)], SourceTypeName: []string{"", "st"}[e.Draw(2)],
				Priority: []gostatsd.Priority{gostatsd.PriNormal, gostatsd.PriLow}[e.Draw(2)], AlertType: []gostatsd.AlertType{gostatsd.AlertInfo, gostatsd.AlertError}[e.Draw(2)]}
			if e.Bool() {
				ev.Tags = gostatsd.Tags{"env:prod", "k"}
			}
			events = append(events, ev)
		}
	}

	// what the backend is handed is the aggregator's own map, shared with every other backend and
	// kept for the next flush: tag slices with spare capacity as after Merge / the tag stage; the
	// backend must leave it as it found it
	handed := deepCopyFlushed(flushed)
	spare := func(t gostatsd.Tags) gostatsd.Tags { return append(make(gostatsd.Tags, 0, len(t)+3), t...) }
	handed.Counters.Each(func(n, k string, v gostatsd.Counter) { v.Tags = spare(v.Tags); handed.Counters[n][k] = v })
	handed.Gauges.Each(func(n, k string, v gostatsd.Gauge) { v.Tags = spare(v.Tags); handed.Gauges[n][k] = v })
	handed.Timers.Each(func(n, k string, v gostatsd.Timer) { v.Tags = spare(v.Tags); handed.Timers[n][k] = v })
	handed.Sets.Each(func(n, k string, v gostatsd.Set) { v.Tags = spare(v.Tags); handed.Sets[n][k] = v })
	canonMap := func(mm *gostatsd.MetricMap) string {
		o, _ := Snapshot(mm)
		return CanonObs(o) + tagsCanon(o)
	}
	beforeSend := canonMap(handed)
	got := c17Send(e, spec, handed, events)
	if after := canonMap(handed); after != beforeSend {
		e.Failf("C17/backend-modified-the-flushed-map", "%s: the map handed to the backend (shared with the other backends and kept by the aggregator for the next flush) differs after the send\nbefore: %s\nafter:  %s", kind, beforeSend, after)
	}
	if spec.BatchSize > 0 && got.payloads > 1 {
		e.Probe("small-batch-many-payloads")
		e.Overlap = true
	}

	// ---- hard limits
	switch {
	case strings.HasPrefix(kind, "influxdb") && spec.BatchSize > 0:
		for i, n := range got.perUnit {
			if n > spec.BatchSize {
				e.Failf("C17/influx-batch-limit", "%s: request %d carries %d lines, metrics-per-batch is %d", kind, i, n, spec.BatchSize)
			}
		}
	case strings.HasPrefix(kind, "otlp") && spec.BatchSize > 0:
		for i, n := range got.perUnit {
			if n > spec.BatchSize {
				e.Failf("C17/otlp-batch-limit", "%s: request %d carries at least %d metrics, metrics_per_batch is %d", kind, i, n, spec.BatchSize)
			}
		}
	case kind == "cloudwatch":
		for i, n := range got.perUnit {
			if n > 20 {
				e.Failf("C17/cloudwatch-20-data-limit", "PutMetricData call %d carries %d data, the limit is 20", i, n)
			}
		}
	case kind == "statsdaemon-udp":
		for i, w := range got.writes {
			if len(w) > 1472 && bytes.Count(bytes.TrimRight(w, "\n"), []byte("\n")) > 0 {
				e.Failf("C17/relay-datagram-size", "relay datagram %d is %d bytes (limit 1472) and holds more than one line", i, len(w))
			}
			if len(w) > 1300 {
				e.Probe("relay-datagram-limit")
			}
		}
	}

	if strings.HasPrefix(kind, "statsdaemon") {
		c17Relay(e, kind, obs, got, events)
		return
	}

	// ---- metamorphic: the same map through the same backend at the default batch size
	if spec.BatchSize > 0 {
		ref := spec
		ref.BatchSize = 0
		want := c17Send(e, ref, deepCopyFlushed(flushed), nil)
		a, b := make([]string, len(got.points)), make([]string, len(want.points))
		for i, p := range got.points {
			a[i] = canonPoint(p)
		}
		for i, p := range want.points {
			b[i] = canonPoint(p)
		}
		sort.Strings(a)
		sort.Strings(b)
		if strings.Join(a, "\n") != strings.Join(b, "\n") {
			ma, mb := map[string]int{}, map[string]int{}
			for _, x := range a {
				ma[x]++
			}
			for _, x := range b {
				mb[x]++
			}
			var diff []string
			for x, n := range ma {
				if mb[x] != n {
					diff = append(diff, fmt.Sprintf("%dx(batch %d) vs %dx(default): %s", n, spec.BatchSize, mb[x], x))
				}
			}
			for x, n := range mb {
				if _, ok := ma[x]; !ok {
					diff = append(diff, fmt.Sprintf("0x(batch %d) vs %dx(default): %s", spec.BatchSize, n, x))
				}
			}
			sort.Strings(diff)
			if len(diff) > 6 {
				diff = diff[:6]
			}
			e.Failf("C17/batching-changes-content:"+kind, "%s: the payloads of one flush with metrics-per-batch %d (%d payloads, %d points) do not carry the same points as with the default batch size (%d payloads, %d points):\n%s",
				kind, spec.BatchSize, got.payloads, len(got.points), want.payloads, len(want.points), strings.Join(diff, "\n"))
		}
	}

	// New Relic's flat event formats put the tags into the same JSON object as the metric's own
	// attributes: a tag whose key equals the metric-name attribute ("name") replaces the series' name.
	if kind == "newrelic-infra" || kind == "newrelic-insights" {
		for _, k := range sortedKeys(obs) {
			o := obs[k]
			clash := false
			for _, t := range o.Tags {
				clash = clash || strings.HasPrefix(t, "name:")
			}
			if !clash {
				continue
			}
			found := false
			for _, p := range got.points {
				found = found || strings.Contains(p.Name, o.Name)
			}
			if !found {
				e.FailfSoft("C17/tag-overwrites-attribute:"+kind+":name", "%s: series %s carries a tag with key 'name'; in the payload that tag replaces the metric name, so the series is not identifiable any more", kind, k)
				return // the rest of this payload cannot be attributed to series
			}
		}
	}

	// ---- every series present exactly once, with its aggregated values, tags and host
	assigned := make([]bool, len(got.points))
	var hostNamed, hostOmitted []string
	for _, k := range sortedKeys(obs) {
		o := obs[k]
		var mine []WirePoint
		for i, p := range got.points {
			if strings.Contains(p.Name, o.Name) {
				mine = append(mine, p)
				assigned[i] = true
			}
		}
		emptyHist := o.Kind == "timer" && o.Timer.Histogram != nil && len(o.Timer.Histogram) == 0
		if emptyHist && len(mine) > 0 {
			e.Failf("C17/dropped-series-reported:"+kind, "%s: %s is a histogram timer under timer-histogram-limit 0, which reports nothing (no buckets, no statistics), yet %d points are sent for it, the first %s", kind, k, len(mine), canonPoint(mine[0]))
		}
		if len(mine) == 0 {
			if emptyHist {
				continue // timer-histogram-limit 0: documented to drop the series
			}
			if o.Kind == "timer" && allTimerSubsDisabled(spec.Disabled) && len(o.Timer.Percentiles) == 0 && o.Timer.Histogram == nil {
				continue
			}
			e.Failf("C17/series-missing:"+kind, "%s: series %s is in the flushed map but in no payload", kind, k)
		}
		seen := map[string]bool{}
		untagged := true
		for _, p := range mine {
			if len(p.Tags) > 0 {
				untagged = false
			}
		}
		for _, p := range mine {
			c := canonPoint(p)
			if seen[c] && o.Kind == "timer" && o.Timer.Histogram != nil && untagged {
				continue // histogram buckets are told apart by their "le" tag; protocols without tags cannot
			}
			if seen[c] {
				e.Failf("C17/series-twice:"+kind, "%s: %s appears twice in the payloads of one flush", kind, c)
			}
			seen[c] = true
		}
		// tags: where the protocol carries tags, every tag of the series is on every point of it
		anyTags := false
		for _, p := range mine {
			if len(p.Tags) > 0 {
				anyTags = true
			}
		}
		if anyTags {
			for _, p := range mine {
				joined := "," + strings.Join(p.Tags, ",") + ","
				for _, t := range o.Tags {
					if strings.HasPrefix(t, "gsd_histogram:") {
						continue
					}
					kv := strings.SplitN(t, ":", 2)
					if !strings.Contains(joined, ","+kv[0]+":"+kv[1]+",") {
						e.Failf("C17/tag-missing:"+kind, "%s: point %s of series %s lacks tag %q", kind, canonPoint(p), k, t)
					}
				}
			}
		}
		// host: where some point of the series names the source, all must; and a backend that names
		// the source for one series names it for every series that has one
		if o.Source != "" {
			n := 0
			for _, p := range mine {
				if p.Host == o.Source || strings.Contains(","+strings.Join(p.Tags, ",")+",", ":"+o.Source+",") {
					n++
				}
			}
			if n != 0 && n != len(mine) {
				e.Failf("C17/host-inconsistent:"+kind, "%s: %d of %d points of series %s carry its source %s", kind, n, len(mine), k, o.Source)
			}
			if len(mine) > 0 {
				if n > 0 {
					hostNamed = append(hostNamed, string(k))
				} else {
					hostOmitted = append(hostOmitted, string(k))
				}
			}
		}
		// values
		const tol = 2e-6 // graphite and friends print ~7 significant digits
		need := func(what string, v float64) {
			if !hasValue(mine, v, tol) {
				var have []string
				for _, p := range mine {
					have = append(have, canonPoint(p))
				}
				e.FailfSoft("C17/value-missing:"+kind+":"+o.Kind+":"+strings.Fields(what)[0], "%s: series %s: no point carries its %s = %v; points: %s", kind, k, what, v, strings.Join(have, " ; "))
			}
		}
		switch o.Kind {
		case "counter":
			need("count", float64(o.Counter))
		case "gauge":
			need("value", o.Gauge)
		case "set":
			need("cardinality", float64(len(o.Members)))
		case "timer":
			t := o.Timer
			if t.Histogram != nil {
				if kind == "otlp-histogram" {
					// OTLP carries per-bucket (not cumulative) counts: the total, sum, min and max are compared
					need("count", float64(len(t.Values)))
					if len(t.Values) > 0 {
						var sum float64
						mn, mx := t.Values[0], t.Values[0]
						for _, v := range t.Values {
							sum += v
							mn, mx = math.Min(mn, v), math.Max(mx, v)
						}
						need("sum", sum)
						need("min", mn)
						need("max", mx)
					}
					break
				}
				for bound, c := range t.Histogram {
					_ = bound
					need("histogram bucket count", float64(c))
				}
				break
			}
			if kind == "otlp-histogram" {
				need("count", float64(len(t.Values)))
				if len(t.Values) > 0 {
					need("sum", t.Sum)
				}
				break
			}
			d := spec.Disabled
			if !d.Lower {
				need("lower", t.Min)
			}
			if !d.Upper {
				need("upper", t.Max)
			}
			if !d.Count {
				need("count", float64(t.Count))
			}
			if !d.CountPerSecond {
				need("count per second", t.PerSecond)
			}
			if !d.Mean {
				need("mean", t.Mean)
			}
			if !d.Median {
				need("median", t.Median)
			}
			if !d.StdDev {
				need("std-dev", t.StdDev)
			}
			if !d.Sum {
				need("sum", t.Sum)
			}
			if !d.SumSquares {
				need("sum of squares", t.SumSquares)
			}
			for _, p := range t.Percentiles {
				need("percentile "+p.Str, p.Float)
			}
		}
	}
	if len(hostNamed) > 0 && len(hostOmitted) > 0 {
		e.Failf("C17/host-missing-for-some-series:"+kind, "%s: in one flush the source is carried for series %v but not for series %v", kind, hostNamed, hostOmitted)
	}
	for i, p := range got.points {
		if !assigned[i] {
			e.Failf("C17/point-for-no-series:"+kind, "%s: payload point %s belongs to no series of the flushed map", kind, canonPoint(p))
		}
	}
}

func allTimerSubsDisabled(d gostatsd.TimerSubtypes) bool {
	return d.Lower && d.Upper && d.Count && d.CountPerSecond && d.Mean && d.Median && d.StdDev && d.Sum && d.SumSquares
}

func deepCopyFlushed(mm *gostatsd.MetricMap) *gostatsd.MetricMap {
	out := deepCopyMap(mm)
	mm.Timers.Each(func(n, tk string, t gostatsd.Timer) {
		c := out.Timers[n][tk]
		c.Percentiles = append(gostatsd.Percentiles(nil), t.Percentiles...)
		if t.Histogram != nil {
			c.Histogram = map[gostatsd.HistogramThreshold]int{}
			for k, v := range t.Histogram {
				c.Histogram[k] = v
			}
		}
		out.Timers[n][tk] = c
	})
	return out
}

// c17Relay: what the statsd relay put on the wire is read back by gostatsd's own parser.
func c17Relay(e *Env, kind string, obs map[SeriesKey]*Obs, got *c17Collected, events []*gostatsd.Event) {
	e.Probe("relay-roundtrip")
	back := Model{}
	var backEvents []gostatsd.Event
	lx := &lexer.Lexer{MetricPool: pool.NewMetricPool(0)}
	for wi, w := range got.writes {
		for _, line := range bytes.Split(bytes.TrimRight(w, "\n"), []byte("\n")) {
			m, ev, err := lx.Run(append([]byte(nil), line...), "")
			if err != nil {
				e.Failf("C17/relay-line-rejected", "%s: write %d: gostatsd's own parser rejects relay line %q: %v", kind, wi, line, err)
			}
			if ev != nil {
				backEvents = append(backEvents, copyEvent(ev))
				continue
			}
			// the source travels as an extra s: tag
			var tags []string
			src := ""
			for _, t := range m.Tags {
				if strings.HasPrefix(t, "s:") {
					src = t[2:]
				} else {
					tags = append(tags, t)
				}
			}
			back.AddRaw(KeyOf(kindOf(m.Type), m.Name, tags, src), kindOf(m.Type), m.Value, m.Rate, m.StringValue, 1)
		}
	}
	round6 := func(v float64) float64 { return math.Round(v*1e6) / 1e6 }
	for _, k := range sortedKeys(obs) {
		o := obs[k]
		if strings.HasPrefix(o.Name, "statsd.") && o.Kind == "counter" {
			continue
		}
		b := back[k]
		empty := (o.Kind == "timer" && len(o.Values) == 0) || (o.Kind == "set" && len(o.Members) == 0)
		if b == nil {
			if empty {
				continue // an idle timer or set has no value to relay
			}
			e.Failf("C17/relay-series-missing", "%s: series %s does not parse back from the relay's output; parsed back: %v", kind, k, sortedKeys(back))
		}
		switch o.Kind {
		case "counter":
			if b.Counter != o.Counter {
				e.Failf("C17/relay-counter", "%s: counter %s parses back as %d, flushed value %d", kind, k, b.Counter, o.Counter)
			}
		case "gauge":
			if round6(b.Gauge) != round6(o.Gauge) {
				e.Failf("C17/relay-gauge", "%s: gauge %s parses back as %v, flushed value %v", kind, k, b.Gauge, o.Gauge)
			}
		case "timer":
			x, y := sortedFloats(b.Values), sortedFloats(o.Values)
			for i := range y {
				y[i] = round6(y[i])
			}
			for i := range x {
				x[i] = round6(x[i])
			}
			sort.Float64s(x)
			sort.Float64s(y)
			if !floatsEqual(x, y) {
				e.Failf("C17/relay-timer-values", "%s: timer %s parses back as %s, flushed values %s", kind, k, fmtFloats(x), fmtFloats(y))
			}
		case "set":
			if !sameStrings(keysOf(b.Members), o.Members) {
				e.Failf("C17/relay-set-members", "%s: set %s parses back as %v, flushed members %v", kind, k, keysOf(b.Members), o.Members)
			}
		}
	}
	for _, k := range sortedKeys(back) {
		if obs[k] == nil {
			e.Failf("C17/relay-series-invented", "%s: the relay's output parses back to series %s which is not in the flushed map", kind, k)
		}
	}
	if len(backEvents) != len(events) {
		e.Failf("C17/relay-event-count", "%s: %d events sent through the relay, %d parse back", kind, len(events), len(backEvents))
	}
	for i, ev := range events {
		e.Probe("relay-event-roundtrip")
		want := copyEvent(ev)
		gotE := backEvents[i]
		// the receiving parser would overwrite the source with the sender address; the relay carries it as h:
		if eventString(gotE) != eventString(want) {
			e.Failf("C17/relay-event-fields", "%s: event parses back as %s\nsent %s", kind, eventString(gotE), eventString(want))
		}
	}
}
