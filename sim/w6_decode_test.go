package verifsim

// w6_decode_test.go — table tests of the wire decoders with hand-written payloads: what a receiver of
// each protocol must understand, and what it must refuse.

import (
	"bytes"
	"compress/gzip"
	"compress/zlib"
	"math"
	"net/http"
	"reflect"
	"strings"
	"testing"
	"time"

	awscw "github.com/aws/aws-sdk-go-v2/service/cloudwatch"
	cwtypes "github.com/aws/aws-sdk-go-v2/service/cloudwatch/types"
	otlpcollector "go.opentelemetry.io/proto/otlp/collector/metrics/v1"
	otlpcommon "go.opentelemetry.io/proto/otlp/common/v1"
	otlpmetrics "go.opentelemetry.io/proto/otlp/metrics/v1"
	otlpresource "go.opentelemetry.io/proto/otlp/resource/v1"
	"google.golang.org/protobuf/proto"
)

func w6Req(body string, hdr ...string) *HTTPReq {
	h := http.Header{}
	for i := 0; i+1 < len(hdr); i += 2 {
		h.Set(hdr[i], hdr[i+1])
	}
	return &HTTPReq{Method: "POST", Header: h, Body: []byte(body)}
}

func w6Gzip(s string) string {
	var b bytes.Buffer
	w := gzip.NewWriter(&b)
	w.Write([]byte(s))
	w.Close()
	return b.String()
}

func w6Zlib(s string) string {
	var b bytes.Buffer
	w := zlib.NewWriter(&b)
	w.Write([]byte(s))
	w.Close()
	return b.String()
}

// w6Same compares point lists; NaN equals NaN.
func w6Same(a, b []WirePoint) bool {
	if len(a) != len(b) {
		return false
	}
	for i := range a {
		x, y := a[i], b[i]
		if math.IsNaN(x.Value) && math.IsNaN(y.Value) {
			x.Value, y.Value = 0, 0
		}
		if len(x.Tags) == 0 && len(y.Tags) == 0 {
			x.Tags, y.Tags = nil, nil
		}
		if !reflect.DeepEqual(x, y) {
			return false
		}
	}
	return true
}

type w6Case struct {
	name    string
	kind    string
	payload string
	hdr     []string
	want    []WirePoint
	wantErr string // substring of the error; "" = must decode
}

func w6RunCases(t *testing.T, cases []w6Case, decode func(c w6Case) ([]WirePoint, error)) {
	t.Helper()
	for _, c := range cases {
		t.Run(c.name, func(t *testing.T) {
			got, err := decode(c)
			if c.wantErr != "" {
				if err == nil {
					t.Fatalf("decoded %v, want an error containing %q", got, c.wantErr)
				}
				if !strings.Contains(err.Error(), c.wantErr) {
					t.Fatalf("error %q does not contain %q", err, c.wantErr)
				}
				return
			}
			if err != nil {
				t.Fatalf("unexpected error: %v", err)
			}
			if !w6Same(got, c.want) {
				t.Fatalf("decoded\n  %v\nwant\n  %v", got, c.want)
			}
		})
	}
}

func TestW6DecodeGraphite(t *testing.T) {
	w6RunCases(t, []w6Case{
		{name: "plain", kind: "graphite-basic", payload: "stats.counters.a.count 12 1700000000\nstats.gauges.g 3.250000 1700000000\n",
			want: []WirePoint{{Name: "stats.counters.a.count", Value: 12, TS: 1700000000}, {Name: "stats.gauges.g", Value: 3.25, TS: 1700000000}}},
		{name: "legacy names", kind: "graphite-legacy", payload: "stats_counts.a 5 10\nstats.a 0.500000 10\n",
			want: []WirePoint{{Name: "stats_counts.a", Value: 5, TS: 10}, {Name: "stats.a", Value: 0.5, TS: 10}}},
		{name: "tags sorted", kind: "graphite-tags", payload: "stats.timers.t.mean;region=us;env=prod;host=h1 25.000000 1700000001\n",
			want: []WirePoint{{Name: "stats.timers.t.mean", Tags: []string{"env:prod", "host:h1", "region:us"}, Value: 25, TS: 1700000001}}},
		{name: "tag value with equals sign", kind: "graphite-tags", payload: "a;k=v=w 1 2\n",
			want: []WirePoint{{Name: "a", Tags: []string{"k:v=w"}, Value: 1, TS: 2}}},
		{name: "negative and exponent", kind: "graphite-basic", payload: "a -1.5e3 2\n", want: []WirePoint{{Name: "a", Value: -1500, TS: 2}}},
		{name: "stdout lines", kind: "stdout", payload: "stats.counter.a.env.prod.count 3 7\n", want: []WirePoint{{Name: "stats.counter.a.env.prod.count", Value: 3, TS: 7}}},
		{name: "empty", kind: "graphite-basic", payload: "", want: nil},
		{name: "two fields", kind: "graphite-basic", payload: "a 1\n", wantErr: "3 fields"},
		{name: "four fields", kind: "graphite-basic", payload: "a b 1 2\n", wantErr: "3 fields"},
		{name: "space in name", kind: "graphite-tags", payload: "a;k=v w 1 2\n", wantErr: "3 fields"},
		{name: "glued lines", kind: "graphite-basic", payload: "a 1 2b 3 4\n", wantErr: "3 fields"},
		{name: "empty line", kind: "graphite-basic", payload: "a 1 2\n\nb 1 2\n", wantErr: "3 fields"},
		{name: "no newline at the end", kind: "graphite-basic", payload: "a 1 2\nb 1 2", wantErr: "not terminated"},
		{name: "value not a number", kind: "graphite-basic", payload: "a x 2\n", wantErr: "value"},
		{name: "timestamp not a number", kind: "graphite-basic", payload: "a 1 now\n", wantErr: "timestamp"},
		{name: "tag without value", kind: "graphite-tags", payload: "a;k= 1 2\n", wantErr: "malformed tag"},
		{name: "tag without equals", kind: "graphite-tags", payload: "a;k 1 2\n", wantErr: "malformed tag"},
		{name: "empty tag", kind: "graphite-tags", payload: "a;;k=v 1 2\n", wantErr: "malformed tag"},
		{name: "tag twice", kind: "graphite-tags", payload: "a;k=v;k=w 1 2\n", wantErr: "twice"},
		{name: "no name before tags", kind: "graphite-tags", payload: ";k=v 1 2\n", wantErr: "empty metric name"},
		{name: "wrong kind", kind: "datadog", payload: "a 1 2\n", wantErr: "not a socket backend"},
	}, func(c w6Case) ([]WirePoint, error) { return DecodeConn(c.kind, []byte(c.payload)) })
}

func TestW6DecodeStatsd(t *testing.T) {
	w6RunCases(t, []w6Case{
		{name: "all four types", kind: "statsdaemon-udp", payload: "c1:12|c\nt1:10.500000|ms\ng1:-3.250000|g\ns1:alice|s\n",
			want: []WirePoint{{Name: "c1", Value: 12, Type: "c"}, {Name: "t1", Value: 10.5, Type: "ms"}, {Name: "g1", Value: -3.25, Type: "g"}, {Name: "s1", Str: "alice", Type: "s"}}},
		{name: "tags", kind: "statsdaemon-tcp", payload: "c1:1|c|#region:us,env:prod,bare\n",
			want: []WirePoint{{Name: "c1", Value: 1, Type: "c", Tags: []string{"bare", "env:prod", "region:us"}}}},
		{name: "rate and tags", kind: "statsdaemon-tcp", payload: "c1:1|c|@0.1|#a:b",
			want: []WirePoint{{Name: "c1", Value: 1, Type: "c", Rate: 0.1, Tags: []string{"a:b"}}}},
		{name: "set member looking like a number", kind: "statsdaemon-udp", payload: "s1:42|s\n", want: []WirePoint{{Name: "s1", Str: "42", Type: "s"}}},
		{name: "colon in tag value", kind: "statsdaemon-udp", payload: "g:1|g|#url:http://x\n", want: []WirePoint{{Name: "g", Value: 1, Type: "g", Tags: []string{"url:http://x"}}}},
		{name: "blank lines ignored", kind: "statsdaemon-udp", payload: "\na:1|c\n\nb:2|c\n", want: []WirePoint{{Name: "a", Value: 1, Type: "c"}, {Name: "b", Value: 2, Type: "c"}}},
		{name: "event", kind: "statsdaemon-tcp", payload: "_e{5,9}:title|line1\\nl2|d:17|h:web1|k:agg|p:low|t:error|#a:b,c",
			want: []WirePoint{{Name: "title", Str: "line1\nl2", Type: "_e", TS: 17, Host: "web1", Tags: []string{"a:b", "c"}}}},
		{name: "event with a pipe in the text", kind: "statsdaemon-tcp", payload: "_e{1,3}:t|a|b", want: []WirePoint{{Name: "t", Str: "a|b", Type: "_e"}}},
		{name: "no type", kind: "statsdaemon-udp", payload: "a:1\n", wantErr: "no |<type>"},
		{name: "no colon", kind: "statsdaemon-udp", payload: "a|c\n", wantErr: "no <name>:"},
		{name: "empty name", kind: "statsdaemon-udp", payload: ":1|c\n", wantErr: "no <name>:"},
		{name: "unknown type", kind: "statsdaemon-udp", payload: "a:1|x\n", wantErr: "unknown metric type"},
		{name: "value not a number", kind: "statsdaemon-udp", payload: "a:one|c\n", wantErr: "value"},
		{name: "glued lines", kind: "statsdaemon-udp", payload: "a:1|cb:2|c\n", wantErr: "unknown metric type"},
		{name: "glued after tags", kind: "statsdaemon-udp", payload: "a:1|c|#x:yb:2|c\n", wantErr: "unexpected section"},
		{name: "rate out of range", kind: "statsdaemon-udp", payload: "a:1|c|@1.5\n", wantErr: "sample rate"},
		{name: "empty tag", kind: "statsdaemon-udp", payload: "a:1|c|#x,,y\n", wantErr: "empty tag"},
		{name: "empty tag section", kind: "statsdaemon-udp", payload: "a:1|c|#\n", wantErr: "empty tag section"},
		{name: "empty set member", kind: "statsdaemon-udp", payload: "a:|s\n", wantErr: "empty set member"},
		{name: "event lengths wrong", kind: "statsdaemon-tcp", payload: "_e{5,2}:title|text", wantErr: "longer than the header"},
		{name: "event too short", kind: "statsdaemon-tcp", payload: "_e{5,20}:title|text", wantErr: "do not match"},
		{name: "event header", kind: "statsdaemon-tcp", payload: "_e{5}:title|text", wantErr: "malformed event header"},
	}, func(c w6Case) ([]WirePoint, error) { return DecodeConn(c.kind, []byte(c.payload)) })
}

func TestW6DecodeDatadog(t *testing.T) {
	series := `{"series":[{"host":"web1","interval":10,"metric":"a.count","points":[[1700000000,12]],"tags":["region:us","env:prod"],"type":"gauge"},` +
		`{"metric":"a","points":[[1700000000,1.2]],"type":"rate"}]}`
	want := []WirePoint{{Name: "a.count", Host: "web1", Tags: []string{"env:prod", "region:us"}, Value: 12, Type: "gauge", TS: 1700000000},
		{Name: "a", Value: 1.2, Type: "rate", TS: 1700000000}}
	w6RunCases(t, []w6Case{
		{name: "plain", payload: series, want: want},
		{name: "deflate", payload: w6Zlib(series), hdr: []string{"Content-Encoding", "deflate"}, want: want},
		{name: "gzip", payload: w6Gzip(series), hdr: []string{"Content-Encoding", "gzip"}, want: want},
		{name: "several points", payload: `{"series":[{"metric":"m","points":[[1,2],[3,4.5]]}]}`, want: []WirePoint{{Name: "m", Value: 2, TS: 1}, {Name: "m", Value: 4.5, TS: 3}}},
		{name: "float timestamp and huge value", payload: `{"series":[{"metric":"m","points":[[1.7e9,1.7976931348623157e308]],"type":"count"}]}`,
			want: []WirePoint{{Name: "m", Value: math.MaxFloat64, TS: 1700000000, Type: "count"}}},
		{name: "empty series", payload: `{"series":[]}`, want: nil},
		{name: "truncated JSON", payload: series[:len(series)-5], wantErr: "JSON"},
		{name: "two documents", payload: series + series, wantErr: "after the end"},
		{name: "NaN is not JSON", payload: `{"series":[{"metric":"m","points":[[1,NaN]]}]}`, wantErr: "JSON"},
		{name: "no series member", payload: `{"metrics":[]}`, wantErr: `no "series"`},
		{name: "no metric name", payload: `{"series":[{"points":[[1,2]]}]}`, wantErr: `no "metric"`},
		{name: "no points", payload: `{"series":[{"metric":"m","points":[]}]}`, wantErr: "no points"},
		{name: "point is not a pair", payload: `{"series":[{"metric":"m","points":[[1,2,3]]}]}`, wantErr: "[timestamp, value]"},
		{name: "point value is a string", payload: `{"series":[{"metric":"m","points":[[1,"2"]]}]}`, wantErr: "non-numeric point"},
		{name: "unknown type", payload: `{"series":[{"metric":"m","points":[[1,2]],"type":"histogram"}]}`, wantErr: "unknown type"},
		{name: "deflate header on plain body", payload: series, hdr: []string{"Content-Encoding", "deflate"}, wantErr: "Content-Encoding deflate"},
		{name: "compressed body without header", payload: w6Zlib(series), wantErr: "JSON"},
		{name: "truncated deflate stream", payload: w6Zlib(series)[:20], hdr: []string{"Content-Encoding", "deflate"}, wantErr: "Content-Encoding deflate"},
		{name: "unknown encoding", payload: series, hdr: []string{"Content-Encoding", "br"}, wantErr: "unsupported Content-Encoding"},
	}, func(c w6Case) ([]WirePoint, error) { return DecodeHTTP("datadog", w6Req(c.payload, c.hdr...)) })

	if _, err := DecodeHTTP("datadog", &HTTPReq{Method: "GET", Header: http.Header{}, Body: []byte(series)}); err == nil {
		t.Errorf("a GET must be refused")
	}
	if _, err := DecodeHTTP("graphite-tags", w6Req(series)); err == nil {
		t.Errorf("a non-HTTP kind must be refused")
	}
}

func TestW6DecodeInflux(t *testing.T) {
	tags := []string{"env:prod", "region:us"}
	w6RunCases(t, []w6Case{
		{name: "counter gauge set", kind: "influxdb-v2", payload: "c1,env=prod,region=us count=12,rate=1.2 1700000000\ng1 value=3.25 1700000000\ns1 count=2 1700000000\n",
			want: []WirePoint{{Name: "c1", Field: "count", Tags: tags, Value: 12, Type: "float", TS: 1700000000}, {Name: "c1", Field: "rate", Tags: tags, Value: 1.2, Type: "float", TS: 1700000000},
				{Name: "g1", Field: "value", Value: 3.25, Type: "float", TS: 1700000000}, {Name: "s1", Field: "count", Value: 2, Type: "float", TS: 1700000000}}},
		{name: "gzip", kind: "influxdb-v1", payload: w6Gzip("g1 value=1 5\n"), hdr: []string{"Content-Encoding", "gzip"}, want: []WirePoint{{Name: "g1", Field: "value", Value: 1, Type: "float", TS: 5}}},
		{name: "identity header", kind: "influxdb-v1", payload: "g1 value=1 5\n", hdr: []string{"Content-Encoding", "identity"}, want: []WirePoint{{Name: "g1", Field: "value", Value: 1, Type: "float", TS: 5}}},
		{name: "escapes", kind: "influxdb-v2", payload: `my\ name\,x,ta\=g=va\ lue,b=c\,d value=1e-3 7` + "\n",
			want: []WirePoint{{Name: "my name,x", Field: "value", Tags: []string{"b:c,d", "ta=g:va lue"}, Value: 0.001, Type: "float", TS: 7}}},
		{name: "backslash before an ordinary character stands for itself", kind: "influxdb-v2", payload: `m,k=a\nb value=1 7`,
			want: []WirePoint{{Name: "m", Field: "value", Tags: []string{`k:a\nb`}, Value: 1, Type: "float", TS: 7}}},
		{name: "value types", kind: "influxdb-v2", payload: `m i=-12i,u=7u,b=true,f=F,s="a \"q\", b\\",x=.5`,
			want: []WirePoint{{Name: "m", Field: "i", Value: -12, Type: "integer"}, {Name: "m", Field: "u", Value: 7, Type: "unsigned"}, {Name: "m", Field: "b", Value: 1, Type: "boolean"},
				{Name: "m", Field: "f", Value: 0, Type: "boolean"}, {Name: "m", Field: "s", Str: `a "q", b\`, Type: "string"}, {Name: "m", Field: "x", Value: 0.5, Type: "float"}}},
		{name: "no timestamp, comments, blank lines, CRLF", kind: "influxdb-v2", payload: "# comment\n\nm value=1\r\n", want: []WirePoint{{Name: "m", Field: "value", Value: 1, Type: "float"}}},
		{name: "histogram style field keys", kind: "influxdb-v2", payload: "t le.+Inf=4,le.20=2 9\n",
			want: []WirePoint{{Name: "t", Field: "le.+Inf", Value: 4, Type: "float", TS: 9}, {Name: "t", Field: "le.20", Value: 2, Type: "float", TS: 9}}},
		{name: "event", kind: "influxdb-v2", payload: `events,alerttype=info,priority=normal title="hello",text="a b" 17`,
			want: []WirePoint{{Name: "events", Field: "title", Tags: []string{"alerttype:info", "priority:normal"}, Str: "hello", Type: "string", TS: 17},
				{Name: "events", Field: "text", Tags: []string{"alerttype:info", "priority:normal"}, Str: "a b", Type: "string", TS: 17}}},
		{name: "missing field set", kind: "influxdb-v2", payload: "m,k=v\n", wantErr: "missing field set"},
		{name: "missing field set, timestamp only", kind: "influxdb-v2", payload: "m,k=v 1700000000\n", wantErr: "malformed field set"},
		{name: "only a measurement", kind: "influxdb-v2", payload: "m\n", wantErr: "missing field set"},
		{name: "two series glued together", kind: "influxdb-v2", payload: "a value=1 1700000000b value=2 1700000000\n", wantErr: "glued"},
		{name: "two series on one line", kind: "influxdb-v2", payload: "a value=1 17 b value=2 17\n", wantErr: "glued"},
		{name: "glued without timestamp", kind: "influxdb-v2", payload: "a value=1b value=2\n", wantErr: "not a line protocol value"},
		{name: "unescaped space in tag value", kind: "influxdb-v2", payload: "m,k=a b value=1 7\n", wantErr: "malformed field set"},
		{name: "unescaped equals in tag value", kind: "influxdb-v2", payload: "m,k=a=b value=1 7\n", wantErr: "unescaped '='"},
		{name: "tag without value", kind: "influxdb-v2", payload: "m,k value=1 7\n", wantErr: "without a value"},
		{name: "empty tag value", kind: "influxdb-v2", payload: "m,k= value=1 7\n", wantErr: "empty tag"},
		{name: "duplicate tag", kind: "influxdb-v2", payload: "m,k=a,k=b value=1 7\n", wantErr: "twice"},
		{name: "trailing comma in field set", kind: "influxdb-v2", payload: "m value=1, 7\n", wantErr: "malformed field set"},
		{name: "NaN", kind: "influxdb-v2", payload: "m value=NaN 7\n", wantErr: "not a line protocol value"},
		{name: "infinity", kind: "influxdb-v2", payload: "m value=+Inf 7\n", wantErr: "not a line protocol value"},
		{name: "unterminated string", kind: "influxdb-v2", payload: `m s="abc 7` + "\n", wantErr: "unterminated string"},
		{name: "float timestamp", kind: "influxdb-v2", payload: "m value=1 7.5\n", wantErr: "timestamp"},
		{name: "leading comma", kind: "influxdb-v2", payload: ",k=v value=1\n", wantErr: "missing measurement"},
		{name: "bad gzip", kind: "influxdb-v2", payload: "m value=1\n", hdr: []string{"Content-Encoding", "gzip"}, wantErr: "Content-Encoding gzip"},
	}, func(c w6Case) ([]WirePoint, error) { return DecodeHTTP(c.kind, w6Req(c.payload, c.hdr...)) })
}

func TestW6DecodeNewRelic(t *testing.T) {
	event := `{"%s":"GoStatsD","integration_version":"2.4.0","interval":10,"timestamp":1700000000,"name":"c1","type":"counter","value":12,"per_second":1.2,"env":"prod","code":200,"bare":"true"}`
	evTags := []string{"bare:true", "code:200", "env:prod"}
	evWant := []WirePoint{{Name: "c1", Field: "per_second", Tags: evTags, Value: 1.2, Type: "counter", TS: 1700000000}, {Name: "c1", Field: "value", Tags: evTags, Value: 12, Type: "counter", TS: 1700000000}}
	infra := func(ev string) string {
		return `{"name":"com.newrelic.gostatsd","protocol_version":"2","integration_version":"2.4.0","data":[{"metrics":[` + ev + `]}]}`
	}
	infraEv := strings.Replace(event, "%s", "event_type", 1)
	insightsEv := strings.Replace(event, "%s", "eventType", 1)
	timerEv := `{"event_type":"GoStatsD","name":"t1","type":"timer","value":4,"min":10,"max":40,"count":4,"sum":100,"mean":25,"median":25,"std_dev":11.18,"sum_squares":3000,"per_second":0.4,"count_90":4,"upper_90":40,"timestamp":5}`
	metrics := `[{"common":{"attributes":{"integration.name":"GoStatsD","env":"common"},"interval.ms":10000},"metrics":[` +
		`{"name":"g1","type":"gauge","value":3.25,"timestamp":1700000000,"attributes":{"statsdType":"gauge","env":"prod"}},` +
		`{"name":"c1","type":"count","value":12,"timestamp":1700000000,"attributes":{"statsdType":"counter"}},` +
		`{"name":"t1.summary","type":"summary","value":{"count":4,"sum":100,"min":10,"max":40},"timestamp":1700000000},` +
		`{"name":"s1","timestamp":1700000000,"attributes":{"statsdType":"set"}}]}]`
	mCommon := []string{"env:common", "integration.name:GoStatsD"}
	metricsWant := []WirePoint{
		{Name: "g1", Tags: []string{"env:prod", "integration.name:GoStatsD", "statsdType:gauge"}, Value: 3.25, Type: "gauge", TS: 1700000000},
		{Name: "c1", Tags: []string{"env:common", "integration.name:GoStatsD", "statsdType:counter"}, Value: 12, Type: "count", TS: 1700000000},
		{Name: "t1.summary", Field: "count", Tags: mCommon, Value: 4, Type: "summary", TS: 1700000000},
		{Name: "t1.summary", Field: "sum", Tags: mCommon, Value: 100, Type: "summary", TS: 1700000000},
		{Name: "t1.summary", Field: "min", Tags: mCommon, Value: 10, Type: "summary", TS: 1700000000},
		{Name: "t1.summary", Field: "max", Tags: mCommon, Value: 40, Type: "summary", TS: 1700000000},
		{Name: "s1", Tags: []string{"env:common", "integration.name:GoStatsD", "statsdType:set"}, Value: math.NaN(), Str: "no-value", TS: 1700000000},
	}
	gz := []string{"Content-Encoding", "gzip"}
	w6RunCases(t, []w6Case{
		{name: "infra", kind: "newrelic-infra", payload: infra(infraEv), want: evWant},
		{name: "infra timer attributes sorted by name", kind: "newrelic-infra", payload: infra(timerEv), want: []WirePoint{
			{Name: "t1", Field: "count", Value: 4, Type: "timer", TS: 5}, {Name: "t1", Field: "count_90", Value: 4, Type: "timer", TS: 5}, {Name: "t1", Field: "max", Value: 40, Type: "timer", TS: 5},
			{Name: "t1", Field: "mean", Value: 25, Type: "timer", TS: 5}, {Name: "t1", Field: "median", Value: 25, Type: "timer", TS: 5}, {Name: "t1", Field: "min", Value: 10, Type: "timer", TS: 5},
			{Name: "t1", Field: "per_second", Value: 0.4, Type: "timer", TS: 5}, {Name: "t1", Field: "std_dev", Value: 11.18, Type: "timer", TS: 5}, {Name: "t1", Field: "sum", Value: 100, Type: "timer", TS: 5},
			{Name: "t1", Field: "sum_squares", Value: 3000, Type: "timer", TS: 5}, {Name: "t1", Field: "upper_90", Value: 40, Type: "timer", TS: 5}, {Name: "t1", Field: "value", Value: 4, Type: "timer", TS: 5}}},
		{name: "infra no metrics", kind: "newrelic-infra", payload: `{"name":"x","protocol_version":"2","integration_version":"1","data":[]}`, want: nil},
		{name: "infra truncated", kind: "newrelic-infra", payload: infra(infraEv)[:60], wantErr: "JSON"},
		{name: "infra without envelope", kind: "newrelic-infra", payload: `[` + infraEv + `]`, wantErr: "JSON"},
		{name: "infra envelope incomplete", kind: "newrelic-infra", payload: `{"name":"x","data":[]}`, wantErr: "required"},
		{name: "infra wrong protocol version", kind: "newrelic-infra", payload: `{"name":"x","protocol_version":"3","integration_version":"1","data":[]}`, wantErr: "protocol_version"},
		{name: "infra event with the insights key", kind: "newrelic-infra", payload: infra(insightsEv), wantErr: `without "event_type"`},
		{name: "infra event without name", kind: "newrelic-infra", payload: infra(`{"event_type":"G","value":1}`), wantErr: `"name"`},
		{name: "infra value is a string", kind: "newrelic-infra", payload: infra(`{"event_type":"G","name":"a","value":"1"}`), wantErr: "not a number"},
		{name: "infra nested attribute", kind: "newrelic-infra", payload: infra(`{"event_type":"G","name":"a","value":1,"k":{"x":1}}`), wantErr: "neither a string"},

		{name: "insights gzip", kind: "newrelic-insights", payload: w6Gzip(`[` + insightsEv + `]`), hdr: gz, want: evWant},
		{name: "insights plain", kind: "newrelic-insights", payload: `[` + insightsEv + `]`, want: evWant},
		{name: "insights empty array", kind: "newrelic-insights", payload: `[]`, want: nil},
		{name: "insights object instead of array", kind: "newrelic-insights", payload: insightsEv, wantErr: "JSON"},
		{name: "insights null", kind: "newrelic-insights", payload: `null`, wantErr: "array"},
		{name: "insights event with the infra key", kind: "newrelic-insights", payload: `[` + infraEv + `]`, wantErr: `without "eventType"`},
		{name: "insights gzip header on plain body", kind: "newrelic-insights", payload: `[` + insightsEv + `]`, hdr: gz, wantErr: "Content-Encoding gzip"},
		{name: "insights two arrays", kind: "newrelic-insights", payload: `[][]`, wantErr: "after the end"},

		{name: "metrics", kind: "newrelic-metrics", payload: w6Gzip(metrics), hdr: gz, want: metricsWant},
		{name: "metrics block without metrics", kind: "newrelic-metrics", payload: `[{"common":{}}]`, wantErr: `no "metrics"`},
		{name: "metrics not an array", kind: "newrelic-metrics", payload: `{"metrics":[]}`, wantErr: "JSON"},
		{name: "metrics without name", kind: "newrelic-metrics", payload: `[{"metrics":[{"type":"gauge","value":1}]}]`, wantErr: "without a name"},
		{name: "metrics unknown type", kind: "newrelic-metrics", payload: `[{"metrics":[{"name":"a","type":"set","value":1}]}]`, wantErr: "unknown type"},
		{name: "metrics gauge with object value", kind: "newrelic-metrics", payload: `[{"metrics":[{"name":"a","type":"gauge","value":{"count":1}}]}]`, wantErr: "must be a number"},
		{name: "metrics summary with number value", kind: "newrelic-metrics", payload: `[{"metrics":[{"name":"a","type":"summary","value":1}]}]`, wantErr: "must be an object"},
		{name: "metrics summary incomplete", kind: "newrelic-metrics", payload: `[{"metrics":[{"name":"a","type":"summary","value":{"count":1,"sum":2}}]}]`, wantErr: `"min"`},
		{name: "metrics quoted timestamp", kind: "newrelic-metrics", payload: `[{"metrics":[{"name":"a","type":"gauge","value":1,"timestamp":"17"}]}]`, wantErr: "timestamp is not a number"},
		{name: "metrics common timestamp", kind: "newrelic-metrics", payload: `[{"common":{"timestamp":17},"metrics":[{"name":"a","type":"gauge","value":1}]}]`, want: []WirePoint{{Name: "a", Value: 1, Type: "gauge", TS: 17}}},
		{name: "metrics truncated", kind: "newrelic-metrics", payload: metrics[:len(metrics)-3], wantErr: "JSON"},
	}, func(c w6Case) ([]WirePoint, error) { return DecodeHTTP(c.kind, w6Req(c.payload, c.hdr...)) })
}

func w6KV(k, v string) *otlpcommon.KeyValue {
	return &otlpcommon.KeyValue{Key: k, Value: &otlpcommon.AnyValue{Value: &otlpcommon.AnyValue_StringValue{StringValue: v}}}
}

func TestW6DecodeOTLP(t *testing.T) {
	f := func(v float64) *float64 { return &v }
	req := &otlpcollector.ExportMetricsServiceRequest{ResourceMetrics: []*otlpmetrics.ResourceMetrics{{
		Resource: &otlpresource.Resource{Attributes: []*otlpcommon.KeyValue{w6KV("service.name", "svc")}},
		ScopeMetrics: []*otlpmetrics.ScopeMetrics{{
			Scope: &otlpcommon.InstrumentationScope{Name: "gostatsd/aggregation"},
			Metrics: []*otlpmetrics.Metric{
				{Name: "g1", Data: &otlpmetrics.Metric_Gauge{Gauge: &otlpmetrics.Gauge{DataPoints: []*otlpmetrics.NumberDataPoint{{
					TimeUnixNano: 1700000000000000000, Value: &otlpmetrics.NumberDataPoint_AsDouble{AsDouble: 3.25},
					Attributes: []*otlpcommon.KeyValue{w6KV("env", "prod"), w6KV("bare", ""),
						{Key: "multi", Value: &otlpcommon.AnyValue{Value: &otlpcommon.AnyValue_ArrayValue{ArrayValue: &otlpcommon.ArrayValue{Values: []*otlpcommon.AnyValue{
							{Value: &otlpcommon.AnyValue_StringValue{StringValue: "a"}}, {Value: &otlpcommon.AnyValue_StringValue{StringValue: "b"}}}}}}}},
				}}}}},
				{Name: "c1.count", Data: &otlpmetrics.Metric_Sum{Sum: &otlpmetrics.Sum{DataPoints: []*otlpmetrics.NumberDataPoint{{
					TimeUnixNano: 7, Value: &otlpmetrics.NumberDataPoint_AsInt{AsInt: 12}}}}}},
				{Name: "t1", Data: &otlpmetrics.Metric_Histogram{Histogram: &otlpmetrics.Histogram{
					AggregationTemporality: otlpmetrics.AggregationTemporality_AGGREGATION_TEMPORALITY_DELTA,
					DataPoints: []*otlpmetrics.HistogramDataPoint{{TimeUnixNano: 9, Count: 4, Sum: f(100), Min: f(10), Max: f(40),
						BucketCounts: []uint64{1, 2, 1}, ExplicitBounds: []float64{10, 30}}}}}},
			}}},
	}}}
	raw, err := proto.Marshal(req)
	if err != nil {
		t.Fatal(err)
	}
	res := []string{"service.name:svc"}
	want := []WirePoint{
		{Name: "g1", Tags: []string{"bare", "env:prod", "multi:a", "multi:b", "service.name:svc"}, Value: 3.25, Type: "gauge", TS: 1700000000000000000},
		{Name: "c1.count", Tags: res, Value: 12, Type: "sum", TS: 7},
		{Name: "t1", Field: "count", Tags: res, Value: 4, Type: "histogram", TS: 9},
		{Name: "t1", Field: "sum", Tags: res, Value: 100, Type: "histogram", TS: 9},
		{Name: "t1", Field: "min", Tags: res, Value: 10, Type: "histogram", TS: 9},
		{Name: "t1", Field: "max", Tags: res, Value: 40, Type: "histogram", TS: 9},
		{Name: "t1", Field: "bucket_le_10", Tags: res, Value: 1, Type: "histogram", TS: 9},
		{Name: "t1", Field: "bucket_le_30", Tags: res, Value: 2, Type: "histogram", TS: 9},
		{Name: "t1", Field: "bucket_le_+Inf", Tags: res, Value: 1, Type: "histogram", TS: 9},
	}
	mustMarshal := func(r *otlpcollector.ExportMetricsServiceRequest) string {
		b, err := proto.Marshal(r)
		if err != nil {
			t.Fatal(err)
		}
		return string(b)
	}
	oneMetric := func(m *otlpmetrics.Metric) string {
		return mustMarshal(&otlpcollector.ExportMetricsServiceRequest{ResourceMetrics: []*otlpmetrics.ResourceMetrics{{ScopeMetrics: []*otlpmetrics.ScopeMetrics{{Metrics: []*otlpmetrics.Metric{m}}}}}})
	}
	// a different, valid protobuf message: an ExportMetricsServiceResponse with a partial success
	otherMsg, _ := proto.Marshal(&otlpcollector.ExportMetricsServiceResponse{PartialSuccess: &otlpcollector.ExportMetricsPartialSuccess{RejectedDataPoints: 3, ErrorMessage: "x"}})
	gz := []string{"Content-Encoding", "gzip"}
	w6RunCases(t, []w6Case{
		{name: "plain", kind: "otlp-gauge", payload: string(raw), want: want},
		{name: "gzip", kind: "otlp-histogram", payload: w6Gzip(string(raw)), hdr: gz, want: want},
		{name: "empty request", kind: "otlp-gauge", payload: "", want: nil},
		{name: "truncated", kind: "otlp-gauge", payload: string(raw[:len(raw)-7]), wantErr: "otlp:"},
		{name: "JSON instead of protobuf", kind: "otlp-gauge", payload: `{"resourceMetrics":[]}`, wantErr: "otlp:"},
		{name: "text", kind: "otlp-gauge", payload: "g1 value=1 5\n", wantErr: "otlp:"},
		{name: "another protobuf message", kind: "otlp-gauge", payload: string(otherMsg), wantErr: "otlp:"},
		{name: "two requests concatenated are one merged request", kind: "otlp-gauge", payload: string(raw) + string(raw), want: append(append([]WirePoint{}, want...), want...)},
		{name: "gzip body without header", kind: "otlp-gauge", payload: w6Gzip(string(raw)), wantErr: "otlp:"},
		{name: "gzip header on plain body", kind: "otlp-gauge", payload: string(raw), hdr: gz, wantErr: "Content-Encoding gzip"},
		{name: "metric without data", kind: "otlp-gauge", payload: oneMetric(&otlpmetrics.Metric{Name: "m"}), wantErr: "carries no data"},
		{name: "metric without name", kind: "otlp-gauge", payload: oneMetric(&otlpmetrics.Metric{Data: &otlpmetrics.Metric_Gauge{Gauge: &otlpmetrics.Gauge{}}}), wantErr: "without a name"},
		{name: "data point without value", kind: "otlp-gauge", payload: oneMetric(&otlpmetrics.Metric{Name: "m", Data: &otlpmetrics.Metric_Gauge{Gauge: &otlpmetrics.Gauge{
			DataPoints: []*otlpmetrics.NumberDataPoint{{TimeUnixNano: 1}}}}}), wantErr: "without a value"},
		{name: "attribute without key", kind: "otlp-gauge", payload: oneMetric(&otlpmetrics.Metric{Name: "m", Data: &otlpmetrics.Metric_Gauge{Gauge: &otlpmetrics.Gauge{
			DataPoints: []*otlpmetrics.NumberDataPoint{{Value: &otlpmetrics.NumberDataPoint_AsInt{AsInt: 1}, Attributes: []*otlpcommon.KeyValue{w6KV("", "v")}}}}}}), wantErr: "empty key"},
		{name: "bucket counts do not match bounds", kind: "otlp-histogram", payload: oneMetric(&otlpmetrics.Metric{Name: "m", Data: &otlpmetrics.Metric_Histogram{Histogram: &otlpmetrics.Histogram{
			DataPoints: []*otlpmetrics.HistogramDataPoint{{Count: 2, BucketCounts: []uint64{1, 1}, ExplicitBounds: []float64{1, 2}}}}}}), wantErr: "bounds+1"},
		{name: "histogram without buckets", kind: "otlp-histogram", payload: oneMetric(&otlpmetrics.Metric{Name: "m", Data: &otlpmetrics.Metric_Histogram{Histogram: &otlpmetrics.Histogram{
			DataPoints: []*otlpmetrics.HistogramDataPoint{{TimeUnixNano: 3, Count: 2, Sum: f(5)}}}}}),
			want: []WirePoint{{Name: "m", Field: "count", Value: 2, Type: "histogram", TS: 3}, {Name: "m", Field: "sum", Value: 5, Type: "histogram", TS: 3}}},
	}, func(c w6Case) ([]WirePoint, error) { return DecodeHTTP(c.kind, w6Req(c.payload, c.hdr...)) })
}

func TestW6DecodeCW(t *testing.T) {
	s := func(v string) *string { return &v }
	f := func(v float64) *float64 { return &v }
	ts := time.Unix(1700000000, 0)
	dims := []cwtypes.Dimension{{Name: s("region"), Value: s("us")}, {Name: s("env"), Value: s("prod")}, {Name: s("bare"), Value: s("set")}}
	good := &awscw.PutMetricDataInput{Namespace: s("StatsD"), MetricData: []cwtypes.MetricDatum{
		{MetricName: s("stats.counter.c1.count"), Value: f(12), Unit: cwtypes.StandardUnitCount, Timestamp: &ts, Dimensions: dims},
		{MetricName: s("stats.gauge.g1"), Value: f(3.25), Unit: cwtypes.StandardUnitNone, Timestamp: &ts},
		{MetricName: s("stat"), StatisticValues: &cwtypes.StatisticSet{SampleCount: f(4), Sum: f(100), Minimum: f(10), Maximum: f(40)}, Unit: cwtypes.StandardUnitMilliseconds},
		{MetricName: s("vals"), Values: []float64{1, 2}, Counts: []float64{3, 4}},
	}}
	tags := []string{"bare:set", "env:prod", "region:us"}
	want := []WirePoint{
		{Name: "stats.counter.c1.count", Tags: tags, Value: 12, Type: "Count", TS: 1700000000},
		{Name: "stats.gauge.g1", Value: 3.25, Type: "None", TS: 1700000000},
		{Name: "stat", Field: "count", Value: 4, Type: "Milliseconds"}, {Name: "stat", Field: "sum", Value: 100, Type: "Milliseconds"},
		{Name: "stat", Field: "min", Value: 10, Type: "Milliseconds"}, {Name: "stat", Field: "max", Value: 40, Type: "Milliseconds"},
		{Name: "vals", Value: 1}, {Name: "vals", Value: 2},
	}
	got, err := DecodeCW(good)
	if err != nil || !w6Same(got, want) {
		t.Fatalf("good input: err=%v\n got %v\nwant %v", err, got, want)
	}
	one := func(d cwtypes.MetricDatum) *awscw.PutMetricDataInput {
		return &awscw.PutMetricDataInput{Namespace: s("StatsD"), MetricData: []cwtypes.MetricDatum{d}}
	}
	many := make([]cwtypes.MetricDatum, 1001)
	for i := range many {
		many[i] = cwtypes.MetricDatum{MetricName: s("m"), Value: f(1)}
	}
	var manyDims []cwtypes.Dimension
	for i := 0; i < 31; i++ {
		manyDims = append(manyDims, cwtypes.Dimension{Name: s("d" + string(rune('A'+i))), Value: s("v")})
	}
	bad := []struct {
		name    string
		in      *awscw.PutMetricDataInput
		wantErr string
	}{
		{"nil input", nil, "nil input"},
		{"no namespace", &awscw.PutMetricDataInput{MetricData: good.MetricData}, "Namespace"},
		{"empty namespace", &awscw.PutMetricDataInput{Namespace: s(""), MetricData: good.MetricData}, "Namespace"},
		{"no datums", &awscw.PutMetricDataInput{Namespace: s("StatsD")}, "0 datums"},
		{"too many datums", &awscw.PutMetricDataInput{Namespace: s("StatsD"), MetricData: many}, "1001 datums"},
		{"no metric name", one(cwtypes.MetricDatum{Value: f(1)}), "no MetricName"},
		{"no value", one(cwtypes.MetricDatum{MetricName: s("m")}), "without Value"},
		{"NaN", one(cwtypes.MetricDatum{MetricName: s("m"), Value: f(math.NaN())}), "rejected"},
		{"infinity", one(cwtypes.MetricDatum{MetricName: s("m"), Value: f(math.Inf(1))}), "rejected"},
		{"empty dimension value", one(cwtypes.MetricDatum{MetricName: s("m"), Value: f(1), Dimensions: []cwtypes.Dimension{{Name: s("k"), Value: s("")}}}), "empty name or value"},
		{"nil dimension name", one(cwtypes.MetricDatum{MetricName: s("m"), Value: f(1), Dimensions: []cwtypes.Dimension{{Value: s("v")}}}), "empty name or value"},
		{"dimension twice", one(cwtypes.MetricDatum{MetricName: s("m"), Value: f(1), Dimensions: []cwtypes.Dimension{{Name: s("k"), Value: s("a")}, {Name: s("k"), Value: s("b")}}}), "twice"},
		{"too many dimensions", one(cwtypes.MetricDatum{MetricName: s("m"), Value: f(1), Dimensions: manyDims}), "31 dimensions"},
		{"incomplete statistic set", one(cwtypes.MetricDatum{MetricName: s("m"), StatisticValues: &cwtypes.StatisticSet{Sum: f(1)}}), "incomplete"},
		{"counts do not match values", one(cwtypes.MetricDatum{MetricName: s("m"), Values: []float64{1, 2}, Counts: []float64{1}}), "Counts"},
	}
	for _, c := range bad {
		t.Run(c.name, func(t *testing.T) {
			got, err := DecodeCW(c.in)
			if err == nil {
				t.Fatalf("decoded %v, want an error containing %q", got, c.wantErr)
			}
			if !strings.Contains(err.Error(), c.wantErr) {
				t.Fatalf("error %q does not contain %q", err, c.wantErr)
			}
		})
	}
}
