package verifsim

// C09 — series persist until their type's expiry interval elapses, then disappear.
// World W1 (real server); time is the bubble clock, which the aggregator reads through time.Now.

import (
	"fmt"
	"math"
	"sort"
	"sync/atomic"
	"time"

	"github.com/atlassian/gostatsd"
)

func init() { register("C09", func() Property { return c09{} }) }

type c09 struct{}

func (c09) ID() string { return "C09" }

// FlushObs is one complete flush: the union of what every shard handed to the backend.
type FlushObs struct {
	Idx   int
	At    time.Time
	Obs   map[SeriesKey]*Obs
	Twice []SeriesKey
}

// flushCollector groups the recording backend's calls into flushes of `workers` calls each.
type flushCollector struct {
	be        *RecBackend
	workers   int
	processed int
	n         int
}

func (fc *flushCollector) next() *FlushObs {
	if fc.be.NCalls()-fc.processed < fc.workers {
		return nil
	}
	f := &FlushObs{Idx: fc.n, Obs: map[SeriesKey]*Obs{}}
	for i := 0; i < fc.workers; i++ {
		c := fc.be.Call(fc.processed + i)
		f.At = c.At
		for k, o := range c.Obs {
			if _, dup := f.Obs[k]; dup {
				f.Twice = append(f.Twice, k)
			}
			f.Obs[k] = o
		}
	}
	fc.processed += fc.workers
	fc.n++
	return f
}

type liveSeries struct {
	kind    string
	lastTS  time.Time
	acc     *Agg
	gauge   float64
	hasData bool // data since the previous flush
	// maybeGone: the previous flush was stalled and the expiry boundary fell inside the stall
	maybeGone bool
}

func (c09) Run(e *Env) {
	e.ProbeDecl("expired", "reported-idle", "boundary-exact", "revived-after-expiry", "negative-expiry-single-flush", "zero-expiry-long-idle", "data-at-flush-instant", "histogram-timer-series", "small-value-pool", "huge-expiry-long-idle", "several-values-in-one-datagram", "node-variant", "datapoint-over-http", "older-datapoint-after-newer", "datapoint-just-before-a-grid-point", "flush-off-grid", "expiry-boundary-inside-stalled-flush", "stalled-outcome-gone", "stalled-outcome-kept", "flush-delayed-past-a-tick")
	if e.Chance(1, 4) {
		c09Node(e) // http ingestion and late maps into the real BackendHandler instead of datagrams into a server
		return
	}
	// incl. intervals that will never elapse in a run: a year, and the largest a configuration can express
	expChoices := []time.Duration{-time.Second, 0, 300 * time.Millisecond, 400 * time.Millisecond, 600 * time.Millisecond, time.Second, 1500 * time.Millisecond, 5 * time.Second, -time.Nanosecond, 8760 * time.Hour, 2562047 * time.Hour, math.MaxInt64}
	cfg := W1Config{
		Readers: 1, Parsers: e.Range(1, 2), Workers: e.Range(1, 3), Queue: []int{0, 2, 8}[e.Draw(3)], BatchSize: 1,
		Flush:      []time.Duration{200 * time.Millisecond, 300 * time.Millisecond, 500 * time.Millisecond, time.Second}[e.Draw(4)],
		ExpCounter: expChoices[e.Draw(len(expChoices))],
		ExpGauge:   expChoices[e.Draw(len(expChoices))],
		ExpSet:     expChoices[e.Draw(len(expChoices))],
		ExpTimer:   expChoices[e.Draw(len(expChoices))],
		Percent:    []float64{90},
	}
	expOf := map[string]time.Duration{"counter": cfg.ExpCounter, "gauge": cfg.ExpGauge, "set": cfg.ExpSet, "timer": cfg.ExpTimer}
	be := &RecBackend{BName: "rec"}
	// Stalled-flush class (one run in five): the backend holds up some flushes, either in the synchronous
	// phase (the shard sits between reporting and Reset, and everything sent to it queues) or in the
	// completion callback (the flusher waits, ticks are missed, the next flush is late and off the grid).
	// Everything is drawn here, before the first flush; the backend only looks the tables up.
	stallClass := e.Chance(1, 5)
	var stallSync, stallCb [64]time.Duration
	var stallOn atomic.Bool
	if stallClass {
		for i := range stallSync {
			d := time.Duration(1+e.Draw(30)) * 50 * time.Millisecond
			if e.Chance(1, 6) {
				d += time.Duration(e.Draw(50)) * time.Millisecond // off the 50 ms grid as well
			}
			switch e.Weighted("c09stall", []int{5, 2, 2}) {
			case 1:
				stallSync[i] = d
			case 2:
				stallCb[i] = d
			}
		}
		stallOn.Store(true)
		workers := cfg.Workers
		be.Stall = func(callIdx int) (time.Duration, time.Duration) {
			fl := callIdx / workers
			if !stallOn.Load() || fl >= len(stallSync) {
				return 0, 0
			}
			// every shard of the flush is held: which shard makes which call of a flush is decided by the
			// Go scheduler within one instant, so holding "the k-th call" would not replay
			if stallSync[fl] > 0 {
				e.Fault("backend-stalls-shard-before-reset")
				return stallSync[fl], 0
			}
			if stallCb[fl] > 0 && callIdx%workers == 0 {
				e.Fault("backend-stalls-flush-completion")
				return 0, stallCb[fl]
			}
			return 0, 0
		}
	}
	stallOfFlush := func(idx int) time.Duration {
		if !stallClass || !stallOn.Load() || idx >= len(stallSync) {
			return 0
		}
		return stallSync[idx]
	}
	cfg.Backends = []gostatsd.Backend{be}
	w := StartW1(cfg)
	defer w.Stop()
	e.Settle()
	t0 := time.Now()
	e.Event("cfg workers=%d flush=%v exp c=%v g=%v s=%v t=%v", cfg.Workers, cfg.Flush, cfg.ExpCounter, cfg.ExpGauge, cfg.ExpSet, cfg.ExpTimer)

	series := GenSeries(e, e.Range(1, 4), []string{"c", "ms", "s", "g"})
	for _, s := range series {
		s.Pow2 = false
		if (s.Type == "ms" || s.Type == "h") && e.Chance(1, 3) {
			s.Tags = append(s.Tags, histTags[e.Draw(len(histTags))]) // histogram timers persist and expire like any timer
			e.Probe("histogram-timer-series")
		}
	}
	live := map[SeriesKey]*liveSeries{}
	everExpired := map[SeriesKey]bool{}
	fc := &flushCollector{be: be, workers: cfg.Workers}
	var lastFlushAt = t0

	checkFlush := func(f *FlushObs) {
		e.Event("flush %d at +%v obs=%s", f.Idx, f.At.Sub(t0), CanonObs(f.Obs))
		for _, k := range f.Twice {
			e.Failf("C09/series-twice-in-flush", "series %s reported twice in flush %d", k, f.Idx)
		}
		delta := f.At.Sub(lastFlushAt)
		for _, k := range sortedLive(live) {
			ls := live[k]
			o := f.Obs[k]
			if ls.maybeGone {
				// the expiry boundary fell inside the previous, stalled flush: both outcomes are right (DESIGN 5, C09)
				ls.maybeGone = false
				if o == nil {
					delete(live, k)
					everExpired[k] = true
					e.Probe("stalled-outcome-gone")
					continue
				}
				e.Probe("stalled-outcome-kept")
			}
			if o == nil {
				e.Failf("C09/missing-before-expiry", "flush %d at +%v: series %s (last datapoint at +%v, expiry %v) is not reported",
					f.Idx, f.At.Sub(t0), k, ls.lastTS.Sub(t0), expOf[ls.kind])
			}
			if !ls.hasData {
				e.Probe("reported-idle")
			}
			switch ls.kind {
			case "counter":
				if o.Counter != ls.acc.Counter {
					e.Failf("C09/counter-value", "flush %d: %s reported %d, expected %d", f.Idx, k, o.Counter, ls.acc.Counter)
				}
				want := float64(ls.acc.Counter) / delta.Seconds()
				// In the stalled class the flusher's interval is the distance between the ticks it read, not
				// between the flushes: only the rate of an idle counter (0) is decided there.
				if (!stallClass || ls.acc.Counter == 0) && !approx(o.PerSecond, want, 1e-9) {
					e.Failf("C09/counter-rate", "flush %d: %s per-second %v, expected %v", f.Idx, k, o.PerSecond, want)
				}
			case "set":
				if !sameStrings(o.Members, keysOf(ls.acc.Members)) {
					e.Failf("C09/set-value", "flush %d: %s members %v, expected %v", f.Idx, k, o.Members, keysOf(ls.acc.Members))
				}
			case "timer":
				if !floatsEqual(sortedFloats(o.Values), sortedFloats(ls.acc.Values)) {
					e.Failf("C09/timer-values", "flush %d: %s values %s, expected %s", f.Idx, k, fmtFloats(sortedFloats(o.Values)), fmtFloats(sortedFloats(ls.acc.Values)))
				}
				if len(ls.acc.Values) == 0 && (o.Timer.Count != 0 || len(o.Timer.Percentiles) != 0 || o.Timer.PerSecond != 0) {
					e.Failf("C09/idle-timer-not-zero", "flush %d: idle timer %s reported count=%d per-second=%v percentiles=%v", f.Idx, k, o.Timer.Count, o.Timer.PerSecond, o.Timer.Percentiles)
				}
			case "gauge":
				if o.Gauge != ls.gauge {
					e.Failf("C09/gauge-value", "flush %d: gauge %s = %v, expected last value %v", f.Idx, k, o.Gauge, ls.gauge)
				}
			}
		}
		for _, k := range sortedKeys(f.Obs) {
			if live[k] == nil {
				cls := "C09/reported-after-expiry"
				if !everExpired[k] {
					cls = "C09/never-sent-series"
				}
				e.Failf(cls, "flush %d at +%v: series %s is reported although it expired (or was never sent)", f.Idx, f.At.Sub(t0), k)
			}
		}
		// expiry, as the statement defines it: gone after the first flush that happens more than
		// the interval after the last datapoint.
		for _, k := range sortedLive(live) {
			ls := live[k]
			iv := expOf[ls.kind]
			age := f.At.Sub(ls.lastTS)
			if iv != 0 && age == iv {
				e.Probe("boundary-exact")
			}
			if iv != 0 && age > iv {
				delete(live, k)
				everExpired[k] = true
				e.Probe("expired")
				e.Overlap = true // non-trivial run: some series went through persistence and expiry
				if iv < 0 {
					e.Probe("negative-expiry-single-flush")
				}
				continue
			}
			if st := stallOfFlush(f.Idx); iv != 0 && st > 0 && age+st > iv {
				// Expiry is decided at Reset, which a stalled shard reaches up to st after it reported.
				ls.maybeGone = true
				e.Probe("expiry-boundary-inside-stalled-flush")
				e.Overlap = true
			}
			if iv == 0 && age > 3*time.Second {
				e.Probe("zero-expiry-long-idle")
			}
			if iv > time.Hour && age > 3*time.Second {
				e.Probe("huge-expiry-long-idle")
			}
			ls.acc = &Agg{Kind: ls.kind, Members: map[string]struct{}{}}
			ls.hasData = false
		}
		if f.At.Sub(t0)%cfg.Flush != 0 {
			e.Probe("flush-off-grid")
		}
		if f.At.Sub(lastFlushAt) > cfg.Flush+cfg.Flush/2 {
			e.Probe("flush-delayed-past-a-tick")
		}
		lastFlushAt = f.At
	}

	nextTick := func() time.Duration {
		el := time.Since(t0)
		return (el/cfg.Flush+1)*cfg.Flush - el
	}
	nOps := e.Range(4, 40*e.Depth())
	sent := 0
	for op := 0; op < nOps; op++ {
		e.Settle()
		for f := fc.next(); f != nil; f = fc.next() {
			checkFlush(f)
		}
		e.Check()
		e.State("live=%d flushes=%d", len(live), fc.n)
		switch e.Weighted("c09", []int{4, 3, 3}) {
		case 0: // one datapoint, at its own instant
			if be.Stalling() > 0 {
				// a shard is held up between reporting and Reset: what is sent now queues behind it and may
				// be overtaken by the next flush command; which flush carries it is C01's business, not C09's
				time.Sleep(50 * time.Millisecond)
				continue
			}
			s := series[e.Draw(len(series))]
			sent++
			d := GenDP(e, s, ClientIP(0), sent)
			if e.Bool() && (s.Type == "g" || s.Type == "ms" || s.Type == "h") {
				d.ValStr = []string{"0", "1", "7.5"}[e.Draw(3)] // repeated values: refreshing a series with the value it already has
				e.Probe("small-value-pool")
			}
			if w.Sock.Waiting() == 0 {
				e.Failf("C09/no-reader", "no reader parked at quiescence")
			}
			// a client may put several values of one series into one datagram
			extra := []DP{}
			if (s.Type == "ms" || s.Type == "h" || s.Type == "c") && e.Chance(1, 4) {
				for i, n := 0, e.Range(1, 3); i < n; i++ {
					sent++
					extra = append(extra, GenDP(e, s, ClientIP(0), sent))
				}
				e.Probe("several-values-in-one-datagram")
			}
			payload := d.Line()
			for _, x := range extra {
				payload += "\n" + x.Line()
			}
			w.Send(0, []byte(payload))
			now := time.Now()
			if now.Sub(t0)%cfg.Flush == 0 && now != t0 {
				e.Probe("data-at-flush-instant")
			}
			k := d.Key("")
			ls := live[k]
			if ls == nil {
				if everExpired[k] {
					e.Probe("revived-after-expiry")
				}
				ls = &liveSeries{kind: d.Kind(), acc: &Agg{Kind: d.Kind(), Members: map[string]struct{}{}}}
				live[k] = ls
			}
			d.TS = now.UnixNano()
			ls.acc.Add2(d)
			for _, x := range extra {
				x.TS = now.UnixNano()
				ls.acc.Add2(x)
			}
			ls.lastTS = now
			ls.hasData = true
			ls.maybeGone = false
			if d.Kind() == "gauge" {
				ls.gauge = d.Value()
			}
			e.Event("send +%v %q", now.Sub(t0), payload)
			// next datapoint gets its own instant
			time.Sleep(time.Millisecond * time.Duration(1+e.Draw(3)) * 50)
		case 1:
			d := time.Duration(1+e.Draw(12)) * 50 * time.Millisecond
			e.Event("idle %v", d)
			time.Sleep(d)
		case 2:
			d := nextTick()
			e.Event("to-tick %v", d)
			time.Sleep(d)
		}
	}
	// let everything with a finite expiry run out: enough flushes to pass the largest interval
	if stallClass {
		e.Settle()
		for be.Stalling() > 0 {
			e.Advance(50 * time.Millisecond) // settles before the counter is read again: a stall may end at this very instant
		}
		for f := fc.next(); f != nil; f = fc.next() {
			checkFlush(f)
		}
		stallOn.Store(false)
	}
	for i := 0; i < int(6*time.Second/cfg.Flush)+2 && i < 40; i++ {
		e.Advance(nextTick())
		for f := fc.next(); f != nil; f = fc.next() {
			checkFlush(f)
		}
		e.Check()
	}
	for _, k := range sortedLive(live) {
		if iv := expOf[live[k].kind]; iv != 0 && iv < time.Hour {
			e.Failf("C09/model-not-drained", "harness bug: %s still live at the end", k)
		}
	}
	e.Note["flushes"] = fc.n
	e.Note["datapoints"] = sent
}

// Add2 accumulates a datapoint into a per-flush accumulator.
func (a *Agg) Add2(d DP) {
	switch a.Kind {
	case "counter":
		a.Counter += int64(d.Value() / d.RateF())
	case "timer":
		a.Values = append(a.Values, d.Value())
		a.Sampled += 1 / d.RateF()
	case "set":
		a.Members[d.ValStr] = struct{}{}
	case "gauge":
		a.Gauge = d.Value()
	}
}

func sortedLive(m map[SeriesKey]*liveSeries) []SeriesKey {
	ks := make([]SeriesKey, 0, len(m))
	for k := range m {
		ks = append(ks, k)
	}
	sort.Slice(ks, func(i, j int) bool { return ks[i] < ks[j] })
	return ks
}

func sameStrings(a, b []string) bool {
	if len(a) != len(b) {
		return false
	}
	x := append([]string(nil), a...)
	y := append([]string(nil), b...)
	sort.Strings(x)
	sort.Strings(y)
	for i := range x {
		if x[i] != y[i] {
			return false
		}
	}
	return true
}

var _ = fmt.Sprintf
