package verifsim

// C04 — flushing never crashes for any reachable aggregate, configuration or backend.
// World W1+W6: the real MetricAggregator under start-up configurations the server accepts, flushed
// into a PRNG-chosen subset of all bundled backends (real payload builders on simulated transports),
// over histories of (merge batch | flush | idle time) so that persisted, empty and expiring series
// are reached. A panic anywhere kills the worker process and is picked up by the crash pipeline.

import (
	"context"
	"fmt"
	"math"
	"sync"
	"time"

	"github.com/atlassian/gostatsd"
	"github.com/atlassian/gostatsd/pkg/statsd"
)

func init() { register("C04", func() Property { return c04{} }) }

type c04 struct{}

func (c04) ID() string { return "C04" }

func (c04) Run(e *Env) {
	e.ProbeDecl("negative-percentile", "empty-percentile-list", "histogram-limit-0", "histogram-malformed", "idle-flush-persisted-timer", "idle-flush-persisted-histogram", "non-finite-value", "series-expired",
		"all-sub-metrics-disabled", "batch-size-1", "batch-size-unlimited", "many-backends")
	pool := []float64{90, 99, 50, 100, 1, 0, -90, -50, -100, -1, 75, -25}
	var pcts []float64
	for i, n := 0, e.Draw(5); i < n; i++ {
		pcts = append(pcts, pool[e.Draw(len(pool))])
		if pcts[len(pcts)-1] < 0 {
			e.Probe("negative-percentile")
		}
	}
	if len(pcts) == 0 {
		e.Probe("empty-percentile-list")
	}
	var dis gostatsd.TimerSubtypes
	switch e.Draw(4) {
	case 1:
		dis = gostatsd.TimerSubtypes{Lower: true, LowerPct: true, Upper: true, UpperPct: true, Count: true, CountPct: true, CountPerSecond: true, Mean: true, MeanPct: true, Median: true, StdDev: true, Sum: true, SumPct: true, SumSquares: true, SumSquaresPct: true}
		e.Probe("all-sub-metrics-disabled")
	case 2:
		dis.Lower, dis.LowerPct, dis.Upper, dis.UpperPct, dis.Count, dis.CountPct, dis.CountPerSecond, dis.Mean = e.Bool(), e.Bool(), e.Bool(), e.Bool(), e.Bool(), e.Bool(), e.Bool(), e.Bool()
		dis.MeanPct, dis.Median, dis.StdDev, dis.Sum, dis.SumPct, dis.SumSquares, dis.SumSquaresPct = e.Bool(), e.Bool(), e.Bool(), e.Bool(), e.Bool(), e.Bool(), e.Bool()
	}
	histLimit := []uint32{0, 1, 3, math.MaxUint32}[e.Draw(4)]
	if histLimit == 0 {
		e.Probe("histogram-limit-0")
	}
	expiry := []time.Duration{0, time.Second, 3 * time.Second, -time.Second}[e.Draw(4)]
	agg := statsd.NewMetricAggregator(pcts, expiry, expiry, expiry, expiry, dis, histLimit)

	fab, conns, cw := NewFabric(), NewConnSim(), NewCWSim()
	var backends []*BuiltBackend
	batch := []int{0, 1, 2, 21, 1000, math.MaxInt64}[e.Draw(6)]
	if batch == 1 {
		e.Probe("batch-size-1")
	}
	if batch == math.MaxInt64 {
		e.Probe("batch-size-unlimited")
	}
	for _, k := range BackendKinds {
		if e.Chance(1, 3) {
			bb, err := BuildBackend(BackendSpec{Kind: k, BatchSize: batch, Compress: e.Bool(), Disabled: dis, MaxRequests: 2, FlushInterval: time.Second}, fab, conns, cw)
			if err != nil && batch == math.MaxInt64 {
				continue // a configuration this backend does not accept
			}
			if err != nil {
				e.Failf("C04/harness", "BuildBackend(%s): %v", k, err)
			}
			backends = append(backends, bb)
		}
	}
	if len(backends) >= 6 {
		e.Probe("many-backends")
	}
	ctx, cancel := context.WithCancel(context.Background())
	var wg sync.WaitGroup
	maxClientTimeout := time.Duration(0)
	for _, bb := range backends {
		if bb.Run != nil {
			wg.Add(1)
			go func(f func(context.Context)) { defer wg.Done(); f(ctx) }(bb.Run)
		}
		if bb.ClientTimeout > maxClientTimeout {
			maxClientTimeout = bb.ClientTimeout
		}
	}
	defer func() {
		if maxClientTimeout > 0 {
			time.Sleep(maxClientTimeout + time.Second)
		}
	}()
	defer wg.Wait()
	defer func() {
		cancel()
		fab.Gate.Open(nil)
		conns.DialGate.Open(nil)
		conns.WriteGate.Open(nil)
		cw.Gate.Open(nil)
	}()
	var kinds []string
	for _, bb := range backends {
		kinds = append(kinds, bb.Spec.Kind)
	}
	e.Event("cfg pcts=%v histlimit=%d expiry=%v disabled=%+v batch=%d backends=%v", pcts, histLimit, expiry, dis, batch, kinds)

	releaseOK := func() bool {
		any := false
		for _, p := range fab.Gate.Parked() {
			r := p.Arg.(*HTTPReq)
			st := 200
			for _, bb := range backends {
				if bb.Host == r.Host {
					st = bb.OKStatus
				}
			}
			fab.Gate.Release(p, HTTPOutcome{Kind: "status", Status: st})
			any = true
		}
		for _, p := range conns.DialGate.Parked() {
			conns.DialGate.Release(p, ConnOutcome{})
			any = true
		}
		for _, p := range conns.WriteGate.Parked() {
			conns.WriteGate.Release(p, WriteOutcome{N: -1})
			any = true
		}
		for _, p := range cw.Gate.Parked() {
			cw.Gate.Release(p, CWOutcome{})
			any = true
		}
		return any
	}

	names := []string{"c04.a", "c04.b", "c04.t"}
	tagsets := [][]string{nil, {"env:prod"}, {"gsd_histogram:10_20_50"}, {"gsd_histogram:x"}, {"gsd_histogram:"}, {"gsd_histogram:5__9", "az:a"}, {"gsd_histogram:-1_0_+Inf"}, {"gsd_histogram:1_2_3_4_5_6"}, {"gsd_histogram:NaN_10"}, {"gsd_histogram:10_NaN_5"}, {"gsd_histogram:-Inf_Inf_7"}, {"gsd_histogram:30_10_20"},
		// tags of unusual shape, all accepted by the lexer
		{"_:canary", "env:prod"}, {"__:x"}, {":novalue-key"}, {"nokey:"}, {":"}, {"_"}, {"a:b:c", "host:h", "s:x"}, {"=", "a=b:c d", "q:\"\\"},
		// more tags than some vendors take dimensions (cloudwatch: 10), with and without the bucket tag a histogram timer gains
		{"t0:0", "t1:1", "t2:2", "t3:3", "t4:4", "t5:5", "t6:6", "t7:7", "t8:8", "t9:9"},
		{"t0:0", "t1:1", "t2:2", "t3:3", "t4:4", "t5:5", "t6:6", "t7:7", "t8:8", "t9:9", "ta:a"},
		{"t0:0", "t1:1", "t2:2", "t3:3", "t4:4", "t5:5", "t6:6", "t7:7", "t8:8", "t9:9", "ta:a", "tb:b", "tc:c"},
		{"gsd_histogram:10_20", "t1:1", "t2:2", "t3:3", "t4:4", "t5:5", "t6:6", "t7:7", "t8:8", "t9:9"},
		{"gsd_histogram:10_20", "t1:1", "t2:2", "t3:3", "t4:4", "t5:5", "t6:6", "t7:7", "t8:8"}}
	specials := []float64{0, -0.0, 1, -1, 1e300, -1e300, 5e-324, math.Inf(1), math.Inf(-1), math.NaN(), math.MaxFloat64, 4294967296, 9.223372036854776e18}
	persistedTimer, persistedHist := false, false
	nFlushes := 0
	nSteps := e.Range(3, 14*e.Depth())
	for step := 0; step < nSteps; step++ {
		switch e.Weighted("c04", []int{4, 4, 2}) {
		case 0: // merge a batch
			mm := gostatsd.NewMetricMap(false)
			for i, n := 0, e.Range(1, 6); i < n; i++ {
				m := &gostatsd.Metric{Name: names[e.Draw(len(names))], Rate: []float64{1, 0.5, 0.1}[e.Draw(3)], Source: gostatsd.Source([]string{"", "10.4.0.1"}[e.Draw(2)]), Timestamp: gostatsd.Nanotime(time.Now().UnixNano())}
				m.Tags = append(gostatsd.Tags(nil), tagsets[e.Draw(len(tagsets))]...)
				v := float64(e.Draw(2000)) / 10
				if e.Chance(1, 6) {
					v = specials[e.Draw(len(specials))]
					if math.IsNaN(v) || math.IsInf(v, 0) {
						e.Probe("non-finite-value")
					}
				}
				switch e.Draw(4) {
				case 0:
					m.Type, m.Value = gostatsd.COUNTER, v
					if math.IsNaN(v) || math.IsInf(v, 0) || math.Abs(v) > 1e15 {
						m.Value = 3 // counters are integers after trunc(value/rate); keep them in range
					}
				case 1:
					m.Type, m.Value = gostatsd.GAUGE, v
				case 2:
					m.Type, m.Value = gostatsd.TIMER, v
					for _, t := range m.Tags {
						if len(t) > 13 && t[:14] == "gsd_histogram:" {
							persistedHist = true
							if t != "gsd_histogram:10_20_50" {
								e.Probe("histogram-malformed")
							}
						}
					}
					persistedTimer = true
				case 3:
					m.Type, m.StringValue = gostatsd.SET, fmt.Sprintf("u%d", e.Draw(4))
				}
				mm.Receive(m)
			}
			obs, _ := Snapshot(mm)
			e.Event("merge %s", CanonObs(obs))
			agg.ReceiveMap(mm)
		case 1: // flush into every backend
			nFlushes++
			func() {
				defer func() {
					if r := recover(); r != nil {
						e.Failf("C04/panic-in-aggregator-flush", "MetricAggregator.Flush panicked: %v (percentiles %v, histogram limit %d)", r, pcts, histLimit)
					}
				}()
				agg.Flush(time.Second)
			}()
			var cbMu sync.Mutex
			cbs := 0
			returned := 0
			agg.Process(func(mm *gostatsd.MetricMap) {
				idleTimers, idleHists := 0, 0
				mm.Timers.Each(func(_, _ string, t gostatsd.Timer) {
					if len(t.Values) == 0 {
						if t.Histogram != nil {
							idleHists++
						} else {
							idleTimers++
						}
					}
				})
				if idleTimers > 0 {
					e.Probe("idle-flush-persisted-timer")
				}
				if idleHists > 0 {
					e.Probe("idle-flush-persisted-histogram")
				}
				// the payload-building phase runs on its own goroutine per backend because some backends
				// block in it until a request buffer is free; the map is not touched until all have returned
				for _, bb := range backends {
					wg.Add(1)
					go func(bb *BuiltBackend) {
						defer wg.Done()
						bb.Backend.SendMetricsAsync(ctx, mm, func(errs []error) {
							cbMu.Lock()
							cbs++
							cbMu.Unlock()
						})
						cbMu.Lock()
						returned++
						cbMu.Unlock()
					}(bb)
				}
				for i := 0; ; i++ {
					e.Settle()
					cbMu.Lock()
					done := returned == len(backends) && cbs == len(backends)
					cbMu.Unlock()
					if done {
						break
					}
					if !releaseOK() {
						if i > 400 {
							e.Failf("C04/flush-did-not-complete", "flush %d: %d of %d backends returned from SendMetricsAsync and %d called back although every transport operation succeeds at once", nFlushes, returned, len(backends), cbs)
						}
						time.Sleep(100 * time.Millisecond)
					}
				}
			})
			agg.Reset()
			e.Event("flush %d", nFlushes)
			e.State("flushes=%d persisted-timer=%v persisted-hist=%v", minInt(nFlushes, 4), persistedTimer, persistedHist)
			e.Overlap = true
			_ = persistedTimer
			_ = persistedHist
		case 2:
			d := time.Duration(1+e.Draw(4)) * time.Second
			e.Event("idle %v", d)
			time.Sleep(d)
			if expiry > 0 && d > expiry {
				e.Probe("series-expired")
			}
		}
	}
	e.Note["flushes"] = nFlushes
}
