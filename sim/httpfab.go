package verifsim

// httpfab.go: in-memory HTTP fabric. It is installed as the http.RoundTripper of the *http.Client
// gostatsd components keep; every round trip parks at a gate until the scheduler decides its outcome.

import (
	"bytes"
	"context"
	"crypto/sha256"
	"encoding/hex"
	"errors"
	"fmt"
	"io"
	"net/http"
	"net/http/httptest"
	"sync"
	"time"
)

type HTTPReq struct {
	N        int
	Method   string
	Host     string
	Path     string
	Header   http.Header
	Body     []byte
	BodyHash string
	Canon    string // canonical content id (KeyFn), used in gate keys and traces instead of the byte hash
	Attempt  int    // 1-based, per (path, body hash)
	At       time.Time
	EndAt    time.Time
	Outcome  string // filled when released
	Status   int
	Aborted  bool // the client's context ended while the request was parked
	cutAt    int  // Serve only: body bytes delivered before the connection is lost (0 = all)
	Chunked  bool // Serve only: the body is streamed without a Content-Length (Transfer-Encoding: chunked)
	req      *http.Request
}

// HTTPOutcome is the scheduler's decision for one parked round trip.
type HTTPOutcome struct {
	Kind   string // serve | status | conn-error | lost-response
	Status int
	Header http.Header
	Body   []byte
	// Damage, for Kind serve / lost-response: the link alters what the server receives
	DamageBody   func([]byte) []byte
	DamageHeader func(http.Header)
	// BrokenResponseBody, for Kind serve: status and headers of the response arrive, the response
	// announces a body, and the connection breaks before that body is complete
	BrokenResponseBody bool
	// CutBodyAt > 0: the connection is lost after that many body bytes; the server has been told the
	// full Content-Length and its read ends with io.ErrUnexpectedEOF
	CutBodyAt int
}

type Fabric struct {
	Gate     *Gate
	mu       sync.Mutex
	routes   map[string]http.Handler
	Reqs     []*HTTPReq
	attempts map[string]int
	// KeyFn, if set, derives a canonical content id for a request (protobuf bodies are not
	// byte-stable across executions: Go map order decides field order).
	KeyFn func(r *HTTPReq) string
	// PanicClass is set if a served handler panicked (net/http would have recovered it)
	Panics []string
	// LocalErrors counts round trips refused before reaching the wire (ContentLength / body mismatch)
	LocalErrors int
}

func NewFabric() *Fabric {
	return &Fabric{Gate: NewGate("http"), routes: map[string]http.Handler{}, attempts: map[string]int{}}
}

func (f *Fabric) Handle(host string, h http.Handler) { f.mu.Lock(); f.routes[host] = h; f.mu.Unlock() }

var errConnRefused = errors.New("dial tcp: connect: connection refused (simulated)")
var errConnReset = errors.New("read: connection reset by peer (simulated)")

func (f *Fabric) RoundTrip(req *http.Request) (*http.Response, error) {
	var body []byte
	if req.Body != nil {
		body, _ = io.ReadAll(req.Body)
		req.Body.Close()
	}
	if req.ContentLength > 0 && int64(len(body)) != req.ContentLength {
		// what net/http's Transport does with a request whose body was already consumed by an
		// earlier attempt: it never reaches the wire
		f.mu.Lock()
		f.LocalErrors++
		f.mu.Unlock()
		return nil, fmt.Errorf("http: ContentLength=%d with Body length %d", req.ContentLength, len(body))
	}
	h := sha256.Sum256(body)
	r := &HTTPReq{Method: req.Method, Host: req.URL.Host, Path: req.URL.Path, Header: req.Header.Clone(), Body: body,
		BodyHash: hex.EncodeToString(h[:8]), At: time.Now(), req: req}
	r.Canon = r.BodyHash
	if f.KeyFn != nil {
		r.Canon = f.KeyFn(r)
	}
	f.mu.Lock()
	r.N = len(f.Reqs)
	k := r.Host + r.Path + "|" + r.Canon
	f.attempts[k]++
	r.Attempt = f.attempts[k]
	f.Reqs = append(f.Reqs, r)
	f.mu.Unlock()
	o, err := f.Gate.ArriveCtx(req.Context(), fmt.Sprintf("%s %s%s|%s|#%d", r.Method, r.Host, r.Path, r.Canon, r.Attempt), r)
	f.mu.Lock()
	r.EndAt = time.Now()
	f.mu.Unlock()
	if err != nil {
		f.mu.Lock()
		r.Aborted = true
		r.Outcome = "client-aborted"
		f.mu.Unlock()
		return nil, err
	}
	if o == nil {
		return nil, errConnRefused
	}
	out := o.(HTTPOutcome)
	f.mu.Lock()
	r.Outcome = out.Kind
	f.mu.Unlock()
	switch out.Kind {
	case "conn-error":
		return nil, errConnRefused
	case "status":
		r.Status = out.Status
		return &http.Response{StatusCode: out.Status, Status: http.StatusText(out.Status), Header: cloneHeader(out.Header), Body: io.NopCloser(bytes.NewReader(out.Body)), Request: req, ProtoMajor: 1, ProtoMinor: 1}, nil
	case "serve", "lost-response":
		sr := r
		if out.DamageBody != nil || out.DamageHeader != nil {
			cp := *r
			cp.Header = r.Header.Clone()
			cp.Body = append([]byte(nil), r.Body...)
			if out.DamageBody != nil {
				cp.Body = out.DamageBody(cp.Body)
			}
			if out.DamageHeader != nil {
				out.DamageHeader(cp.Header)
			}
			sr = &cp
		}
		if out.CutBodyAt > 0 && out.CutBodyAt < len(sr.Body) {
			cp := *sr
			cp.cutAt = out.CutBodyAt
			sr = &cp
		}
		resp := f.Serve(sr)
		r.Status = resp.StatusCode
		if out.Kind == "lost-response" {
			return nil, errConnReset
		}
		resp.Request = req
		if out.BrokenResponseBody {
			resp.ContentLength = 16
			resp.Header.Set("Content-Length", "16")
			resp.Body = io.NopCloser(io.MultiReader(bytes.NewReader([]byte("acc")), errReader{io.ErrUnexpectedEOF}))
		}
		return resp, nil
	}
	return nil, fmt.Errorf("fabric: unknown outcome %q", out.Kind)
}

func cloneHeader(h http.Header) http.Header {
	if h == nil {
		return http.Header{}
	}
	return h.Clone()
}

// ServeCtx is Serve with an explicit request context (net/http cancels it when the handler returns).
func (f *Fabric) ServeCtx(ctx context.Context, r *HTTPReq) *http.Response {
	cp := *r
	cp.req = httptest.NewRequest(r.Method, "http://"+r.Host+r.Path, nil).WithContext(ctx)
	return f.Serve(&cp)
}

// Serve runs the registered handler for r the way http.Server would and returns its response.
func (f *Fabric) Serve(r *HTTPReq) (resp *http.Response) {
	f.mu.Lock()
	h := f.routes[r.Host]
	f.mu.Unlock()
	rec := httptest.NewRecorder()
	if h == nil {
		rec.WriteHeader(http.StatusBadGateway)
		return rec.Result()
	}
	sreq := httptest.NewRequest(r.Method, "http://"+r.Host+r.Path, bytes.NewReader(r.Body))
	sreq.Header = r.Header.Clone()
	if r.cutAt > 0 {
		sreq.ContentLength = int64(len(r.Body))
		sreq.Body = io.NopCloser(io.MultiReader(bytes.NewReader(r.Body[:r.cutAt]), errReader{io.ErrUnexpectedEOF}))
	}
	if r.Chunked {
		sreq.ContentLength = -1
		sreq.TransferEncoding = []string{"chunked"}
		sreq.Body = io.NopCloser(struct{ io.Reader }{bytes.NewReader(r.Body)})
	}
	if r.req != nil {
		sreq = sreq.WithContext(r.req.Context())
		sreq.URL.RawQuery = r.req.URL.RawQuery
	}
	func() {
		defer func() {
			if p := recover(); p != nil {
				f.mu.Lock()
				f.Panics = append(f.Panics, fmt.Sprint(p))
				f.mu.Unlock()
				rec = httptest.NewRecorder()
				rec.Code = 0
			}
		}()
		h.ServeHTTP(rec, sreq)
	}()
	if rec.Code == 0 {
		return &http.Response{StatusCode: 0, Header: http.Header{}, Body: io.NopCloser(bytes.NewReader(nil))}
	}
	return rec.Result()
}

func (f *Fabric) NReqs() int { f.mu.Lock(); defer f.mu.Unlock(); return len(f.Reqs) }
func (f *Fabric) Req(i int) *HTTPReq {
	f.mu.Lock()
	defer f.mu.Unlock()
	return f.Reqs[i]
}

type errReader struct{ err error }

func (e errReader) Read([]byte) (int, error) { return 0, e.err }
