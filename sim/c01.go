package verifsim

// C01 — every datapoint lands in exactly one flush: no loss, no duplication.
// World W1 through the real statsd.Server.RunWithCustomSocket.

import (
	"fmt"
	"sort"
	"strings"
	"time"

	"github.com/atlassian/gostatsd"
)

func init() { register("C01", func() Property { return c01{} }) }

type c01 struct{}

func (c01) ID() string { return "C01" }

// flushTracker groups backend calls into flushes (numWorkers calls each) and accumulates what has
// been reported per series.
type flushTracker struct {
	workers   int
	processed int // backend calls consumed by the driver
	cur       []*BackendCall
	NFlushes  int
	Reported  map[SeriesKey]*Agg // cumulative over completed calls
	shardOf   map[SeriesKey]*gostatsd.MetricMap
}

func newFlushTracker(workers int) *flushTracker {
	return &flushTracker{workers: workers, Reported: map[SeriesKey]*Agg{}, shardOf: map[SeriesKey]*gostatsd.MetricMap{}}
}

func (ft *flushTracker) add(e *Env, prop string, c *BackendCall, sent func(SeriesKey) bool) {
	if len(c.Dups) > 0 {
		e.Report(prop+"/dup-in-map", "series twice within one map: %v", c.Dups)
	}
	// no series twice within one flush (across shards)
	for _, prev := range ft.cur {
		for k := range c.Obs {
			if _, ok := prev.Obs[k]; ok {
				e.Report(prop+"/series-twice-in-flush", "series %s reported by two shards in flush %d", k, ft.NFlushes)
			}
		}
	}
	for _, k := range sortedKeys(c.Obs) {
		o := c.Obs[k]
		if sent != nil && !sent(k) {
			e.Report(prop+"/never-sent-series", "series %s reported in flush %d but never sent", k, ft.NFlushes)
		}
		if m, ok := ft.shardOf[k]; ok && m != c.Map {
			e.Report(prop+"/shard-changed", "series %s reported by a different shard in flush %d", k, ft.NFlushes)
		}
		ft.shardOf[k] = c.Map
		a := ft.Reported[k]
		if a == nil {
			a = &Agg{Kind: o.Kind, Members: map[string]struct{}{}}
			ft.Reported[k] = a
		}
		a.Counter += o.Counter
		a.Values = append(a.Values, o.Values...)
		a.Sampled += o.Sampled
		for _, m := range o.Members {
			a.Members[m] = struct{}{}
		}
		a.Gauge = o.Gauge
	}
	ft.cur = append(ft.cur, c)
	ft.processed++
	if len(ft.cur) == ft.workers {
		ft.cur = nil
		ft.NFlushes++
	}
}

func (c01) Run(e *Env) { runConservation(e, "C01") }

// runConservation is the W1 conservation scenario; C06 reuses it with a routing-centred swarm and
// additional routing oracles.
func runConservation(e *Env, prop string) {
	routing := prop == "C06"
	if routing {
		e.ProbeDecl("colocated-pair", "separated-pair", "sub-batch-split", "empty-name-series")
	}
	e.ProbeDecl("flush-with-stalled-shard", "delivery-while-stalled", "callback-delayed", "reader-backpressure", "multi-shard-flush", "sampled-counter", "negative-counter")
	if !routing {
		e.ProbeDecl("tag-repeated-on-the-wire")
	}
	e.ProbeDecl("burst-read-as-one-batch")
	cfg := W1Config{
		Readers:    e.Range(1, 3),
		Parsers:    e.Range(1, 4),
		Workers:    e.Range(1, map[bool]int{false: 5, true: 8}[routing]),
		Queue:      []int{0, 1, 2, 8}[e.Draw(4)],
		BatchSize:  e.Range(1, 5),
		Flush:      []time.Duration{200 * time.Millisecond, 500 * time.Millisecond, time.Second, 2 * time.Second}[e.Draw(4)],
		ExpCounter: time.Hour, ExpGauge: time.Hour, ExpSet: time.Hour, ExpTimer: time.Hour,
		Percent: []float64{90},
	}
	if e.Bool() {
		cfg.Namespace = "ns"
	}
	netFaults := !routing && e.Chance(1, 3)
	stalls := e.Chance(1, 2)
	nClients := e.Range(1, 4)
	nSeries := e.Range(1, 6)
	nDgrams := e.Range(1, 30*e.Depth())

	be := &RecBackend{BName: "rec", SyncGate: NewGate("sync"), CbGate: NewGate("cb")}
	cfg.Backends = []gostatsd.Backend{be}
	w := StartW1(cfg)
	defer w.Stop()
	defer be.CbGate.Open(nil)
	defer be.SyncGate.Open(nil)
	e.Event("cfg readers=%d parsers=%d workers=%d queue=%d flush=%v ns=%q netfaults=%v stalls=%v clients=%d series=%d dgrams=%d",
		cfg.Readers, cfg.Parsers, cfg.Workers, cfg.Queue, cfg.Flush, cfg.Namespace, netFaults, stalls, nClients, nSeries, nDgrams)
	e.Settle()
	t0 := time.Now()

	series := GenSeries(e, nSeries, []string{"c", "c", "ms", "h", "s", "g"})
	for _, s := range series {
		if (s.Type == "ms" || s.Type == "h") && e.Chance(1, 4) {
			s.Tags = append(s.Tags, histTags[e.Draw(len(histTags))]) // a histogram timer's values are datapoints like any other
			e.Probe("histogram-timer-series")
		}
	}
	type dgram struct {
		dps     []DP
		payload []byte
	}
	queues := make([][]*dgram, nClients)
	id := 0
	for i := 0; i < nDgrams; i++ {
		c := e.Draw(nClients)
		n := e.Range(1, 6)
		var dps []DP
		for j := 0; j < n; j++ {
			id++
			dp := GenDP(e, series[e.Draw(len(series))], ClientIP(c), id)
			// (not on gauges: two gauge values of one datagram that only become one series in the tag stage
			// are merged in Go map order there - equal timestamps, either may win - which would not replay)
			if !routing && len(dp.Tags) > 0 && dp.Type != "g" && e.Chance(1, 8) {
				dp.WireDupTag = true
				e.Probe("tag-repeated-on-the-wire")
			}
			dps = append(dps, dp)
		}
		queues[c] = append(queues[c], &dgram{dps: dps, payload: joinLines(dps, e.Bool())})
	}

	model := Model{}   // everything the socket delivered
	settled := Model{} // snapshot of model taken at the last fully settled instant
	sentKeys := map[SeriesKey]bool{}
	ft := newFlushTracker(cfg.Workers)
	var lowerBound Model // settled snapshot in force when the current flush began
	bitsOK := !netFaults

	copyModel := func(m Model) Model {
		out := Model{}
		for k, a := range m {
			c := *a
			c.Values = append([]float64(nil), a.Values...)
			c.Members = map[string]struct{}{}
			for x := range a.Members {
				c.Members[x] = struct{}{}
			}
			out[k] = &c
		}
		return out
	}
	// containment: lo ⊆ reported ⊆ hi for attributable quantities
	checkBounds := func(lo, hi Model, where string) {
		for _, k := range sortedKeys(ft.Reported) {
			r := ft.Reported[k]
			h := hi[k]
			if h == nil {
				e.Report(prop+"/never-sent-series", "%s: %s reported but never delivered", where, k)
				continue
			}
			switch r.Kind {
			case "timer":
				if !multisetLE(r.Values, h.Values) {
					e.Report(prop+"/timer-values-not-received", "%s: %s reported %s, delivered so far %s", where, k, fmtFloats(sortedFloats(r.Values)), fmtFloats(sortedFloats(h.Values)))
				}
			case "set":
				for m := range r.Members {
					if _, ok := h.Members[m]; !ok {
						e.Report(prop+"/set-member-not-received", "%s: %s member %q never delivered", where, k, m)
					}
				}
			case "counter":
				if bitsOK && isPow2Series(series, k, cfg.Namespace) && r.Counter&^h.Counter != 0 {
					e.Report(prop+"/counter-over-reported", "%s: %s reported bits %b, delivered bits %b", where, k, r.Counter, h.Counter)
				}
			}
		}
		for _, k := range sortedKeys(lo) {
			l := lo[k]
			r := ft.Reported[k]
			if r == nil {
				r = &Agg{Members: map[string]struct{}{}}
			}
			switch l.Kind {
			case "timer":
				if !multisetLE(l.Values, r.Values) {
					e.Report(prop+"/settled-timer-missing", "%s: %s settled values %s not all reported %s", where, k, fmtFloats(sortedFloats(l.Values)), fmtFloats(sortedFloats(r.Values)))
				}
			case "set":
				for m := range l.Members {
					if _, ok := r.Members[m]; !ok {
						e.Report(prop+"/settled-set-member-missing", "%s: %s settled member %q not reported", where, k, m)
					}
				}
			case "counter":
				if bitsOK && isPow2Series(series, k, cfg.Namespace) && l.Counter&^r.Counter != 0 {
					e.Report(prop+"/settled-counter-missing", "%s: %s settled bits %b, reported bits %b", where, k, l.Counter, r.Counter)
				}
			}
		}
	}

	absorb := func() {
		// consume backend calls whose synchronous phase has been entered, flush by flush; within a
		// flush the order in which shards arrived is the runtime's business, so canonicalise it.
		for ft.processed < be.NCalls() {
			n := be.NCalls() - ft.processed
			if room := cfg.Workers - len(ft.cur); n > room {
				n = room
			}
			batch := make([]*BackendCall, n)
			for i := range batch {
				batch[i] = be.Call(ft.processed + i)
			}
			sort.SliceStable(batch, func(i, j int) bool { return CanonObs(batch[i].Obs) < CanonObs(batch[j].Obs) })
			for _, c := range batch {
				if len(ft.cur) == 0 {
					lowerBound = settled
					if be.SyncGate.Len() > 0 || be.CbGate.Len() > 0 {
						e.Probe("flush-with-stalled-shard")
					}
				}
				nf := ft.NFlushes
				ft.add(e, prop, c, func(k SeriesKey) bool { return sentKeys[k] })
				e.Event("call flush=%d obs=%s", nf, CanonObs(c.Obs))
				if ft.NFlushes != nf {
					if cfg.Workers > 1 {
						e.Probe("multi-shard-flush")
					}
					checkBounds(lowerBound, model, fmt.Sprintf("after flush %d", nf))
				}
			}
		}
	}

	nextTick := func() time.Duration {
		el := time.Since(t0)
		k := el/cfg.Flush + 1
		return time.Duration(k)*cfg.Flush - el
	}
	pendingDgrams := func() int {
		n := 0
		for _, q := range queues {
			n += len(q)
		}
		return n
	}

	steps := 0
	for pendingDgrams() > 0 && steps < 400 {
		steps++
		e.Settle()
		absorb()
		e.Check()
		syncP, cbP := be.SyncGate.Parked(), be.CbGate.Parked()
		if !stalls {
			// no stall faults in this class: the backend never holds anything
			for _, p := range syncP {
				be.SyncGate.Release(p, nil)
			}
			for _, p := range cbP {
				be.CbGate.Release(p, nil)
			}
			if len(syncP)+len(cbP) > 0 {
				continue
			}
		}
		if len(syncP) == 0 && len(cbP) == 0 {
			settled = copyModel(model)
		}
		e.State("held=%d/%d readers=%d flushes=%d partial=%d", len(syncP), len(cbP), w.Sock.Waiting(), ft.NFlushes, len(ft.cur))
		// enabled actions
		var clientsReady []int
		if w.Sock.Waiting() > 0 {
			for c, q := range queues {
				if len(q) > 0 {
					clientsReady = append(clientsReady, c)
				}
			}
		} else {
			e.Probe("reader-backpressure")
		}
		weights := []int{6 * len(clientsReady), 2, 2, 4 * len(distinctKeys(syncP)), 3 * len(distinctKeys(cbP))}
		switch e.Weighted("c01", weights) {
		case 0:
			c := clientsReady[e.Choose("client", len(clientsReady))]
			q := queues[c]
			pick := 0
			if netFaults && len(q) > 1 && e.Chance(1, 6) {
				pick = 1 + e.Choose("reorder", len(q)-1)
				e.Fault("reorder")
			}
			dg := q[pick]
			queues[c] = append(append([]*dgram(nil), q[:pick]...), q[pick+1:]...)
			if netFaults && e.Chance(1, 8) {
				e.Fault("drop")
				e.Event("drop client=%d %q", c, dg.payload)
				continue
			}
			copies := 1
			if netFaults && e.Chance(1, 8) {
				copies = 2
				e.Fault("duplicate")
			}
			for i := 0; i < copies; i++ {
				if i > 0 {
					e.Settle()
					if w.Sock.Waiting() == 0 {
						break
					}
				}
				if len(syncP)+len(cbP) > 0 {
					e.Probe("delivery-while-stalled")
					e.Overlap = true
					// a worker released later finds both its queue and a flush command ready: Go's select
					// decides whether this datagram lands in that flush or the next (DESIGN 8.1); the
					// oracle accepts both, the trace cannot be the same
					e.Unstable("datagram-in-flight-across-a-flush")
				}
				// sometimes more datagrams are waiting in the socket buffer and the reader gets them in one
				// batch (recvmmsg): they share one receive timestamp and go through the parser together
				burst := []*dgram{dg}
				burstClients := []int{c}
				if i == 0 && cfg.BatchSize > 1 && e.Chance(1, 4) {
					for c2 := range queues {
						for len(queues[c2]) > 0 && len(burst) < cfg.BatchSize && e.Bool() {
							burst = append(burst, queues[c2][0])
							burstClients = append(burstClients, c2)
							queues[c2] = queues[c2][1:]
						}
					}
				}
				if len(burst) > 1 {
					var ps [][]byte
					for _, b := range burst {
						ps = append(ps, b.payload)
					}
					w.SendBurst(burstClients, ps)
					e.Probe("burst-read-as-one-batch")
				} else {
					w.Send(c, dg.payload)
				}
				now := time.Now().UnixNano()
				var burstDPs []*DP
				for _, b := range burst[1:] {
					for j := range b.dps {
						burstDPs = append(burstDPs, &b.dps[j])
					}
					e.Event("deliver (same batch) %q", b.payload)
				}
				for _, d := range burstDPs {
					d.TS = now
					k := d.Key(cfg.Namespace)
					model.Add(k, *d)
					sentKeys[k] = true
				}
				for _, d := range dg.dps {
					d.TS = now
					k := d.Key(cfg.Namespace)
					model.Add(k, d)
					sentKeys[k] = true
					if d.Type == "c" && d.Rate != "" && d.Rate != "1" {
						e.Probe("sampled-counter")
					}
					if d.Type == "c" && strings.HasPrefix(d.ValStr, "-") {
						e.Probe("negative-counter")
					}
				}
				e.Event("deliver client=%d %q", c, dg.payload)
			}
		case 1:
			d := time.Duration(1+e.Draw(50)) * time.Millisecond
			e.Event("idle %v", d)
			time.Sleep(d)
		case 2:
			d := nextTick()
			e.Event("to-tick %v", d)
			time.Sleep(d)
		case 3:
			// shards whose flushed content is identical cannot be told apart by content; which of them
			// arrived first is the runtime's business, so they are released together
			keys := distinctKeys(syncP)
			k := keys[e.Choose("rel-sync", len(keys))]
			e.Fault("shard-stall")
			e.Event("release sync %s", k)
			for _, p := range syncP {
				if p.Key == k {
					be.SyncGate.Release(p, nil)
				}
			}
		case 4:
			keys := distinctKeys(cbP)
			k := keys[e.Choose("rel-cb", len(keys))]
			e.Fault("callback-delay")
			e.Probe("callback-delayed")
			e.Event("release cb %s", k)
			for _, p := range cbP {
				if p.Key == k {
					be.CbGate.Release(p, nil)
				}
			}
		}
	}

	// settle phase: no more traffic, no more faults; everything held is released; flush until two
	// complete flushes have happened after the last delivery.
	e.Settle()
	absorb()
	be.SyncGate.Open(nil)
	be.CbGate.Open(nil)
	e.Settle()
	absorb()
	target := ft.NFlushes + 2
	if len(ft.cur) > 0 {
		target++
	}
	for i := 0; ft.NFlushes < target; i++ {
		if i > 8 {
			e.Failf(prop+"/flush-wedged", "no flush completed within %d intervals after faults stopped (have %d, want %d)", i, ft.NFlushes, target)
		}
		e.Advance(nextTick())
		absorb()
		e.Check()
	}
	e.Event("final flushes=%d", ft.NFlushes)

	// conservation over all flushes
	for _, k := range sortedKeys(model) {
		m := model[k]
		r := ft.Reported[k]
		if r == nil {
			e.Failf(prop+"/series-lost", "series %s delivered (%d datapoints) but never reported", k, m.N)
		}
		switch m.Kind {
		case "counter":
			if r.Counter != m.Counter {
				e.Failf(prop+"/counter-sum", "series %s: sum over all flushes %d, expected sum of trunc(v/r) = %d", k, r.Counter, m.Counter)
			}
		case "timer":
			if !floatsEqual(sortedFloats(r.Values), sortedFloats(m.Values)) {
				e.Failf(prop+"/timer-multiset", "series %s: reported values %s, received %s", k, fmtFloats(sortedFloats(r.Values)), fmtFloats(sortedFloats(m.Values)))
			}
			if !approx(r.Sampled, m.Sampled, 1e-9) {
				e.Failf(prop+"/timer-sampled-count", "series %s: sampled counts sum to %v, expected %v", k, r.Sampled, m.Sampled)
			}
		case "set":
			if len(r.Members) != len(m.Members) {
				e.Failf(prop+"/set-members", "series %s: reported members %v, received %v", k, keysOf(r.Members), keysOf(m.Members))
			}
			for x := range m.Members {
				if _, ok := r.Members[x]; !ok {
					e.Failf(prop+"/set-members", "series %s: member %q received but never reported", k, x)
				}
			}
		}
	}
	for _, k := range sortedKeys(ft.Reported) {
		if model[k] == nil {
			e.Failf(prop+"/never-sent-series", "series %s reported but never sent", k)
		}
	}
	e.Check()
	if routing {
		checkRouting(e, cfg.Workers, ft, model)
	}
	e.Note["flushes"] = ft.NFlushes
	e.Note["datapoints"] = id
}

func distinctKeys(ps []*Parked) []string {
	var out []string
	for _, p := range ps { // ps is sorted by key
		if len(out) == 0 || out[len(out)-1] != p.Key {
			out = append(out, p.Key)
		}
	}
	return out
}

func keysOf(m map[string]struct{}) []string {
	out := make([]string, 0, len(m))
	for k := range m {
		out = append(out, k)
	}
	sort.Strings(out)
	return out
}

// multisetLE: a ⊆ b as multisets.
func multisetLE(a, b []float64) bool {
	if len(a) > len(b) {
		return false
	}
	x, y := sortedFloats(a), sortedFloats(b)
	j := 0
	for _, v := range x {
		for j < len(y) && y[j] < v {
			j++
		}
		if j >= len(y) || y[j] != v {
			return false
		}
		j++
	}
	return true
}

func isPow2Series(series []*Series, k SeriesKey, ns string) bool {
	for _, s := range series {
		if s.Type != "c" || !s.Pow2 || s.n > 40 {
			continue
		}
		n := s.Name
		if ns != "" {
			n = ns + "." + n
		}
		if strings.HasPrefix(string(k), "counter|"+n+"|") {
			// same name may exist with other tag sets; require exact tags
			parts := strings.SplitN(string(k), "|", 4)
			t := append([]string(nil), s.Tags...)
			sort.Strings(t)
			if parts[2] == strings.Join(t, ",") {
				return true
			}
		}
	}
	return false
}
