package verifsim

// C20 — the Lambda extension asks for the next invocation only after flushing.
// World W5 + real extension manager + real telemetry server (through hook H2) + real statsd.Server in
// forwarder mode on the simulated socket; fake Lambda runtime API and upstream on the HTTP fabric.

import (
	"context"
	"encoding/json"
	"fmt"
	"net"
	"net/http"
	"sort"
	"strings"
	"sync"
	"sync/atomic"
	"time"

	"github.com/sirupsen/logrus"
	"github.com/spf13/viper"

	"github.com/atlassian/gostatsd"
	"github.com/atlassian/gostatsd/internal/awslambda/extension"
	"github.com/atlassian/gostatsd/internal/flush"
	"github.com/atlassian/gostatsd/internal/verifhook"
	"github.com/atlassian/gostatsd/pkg/statsd"
	"github.com/atlassian/gostatsd/pkg/transport"
	"github.com/atlassian/gostatsd/pkg/web"
)

func init() { register("C20", func() Property { return c20{} }) }

type c20 struct{}

func (c20) ID() string { return "C20" }

type c20Server struct {
	s    *statsd.Server
	sock *SimSocket
	fail error
}

func (w *c20Server) Run(ctx context.Context) error {
	if w.fail != nil {
		return w.fail
	}
	return w.s.RunWithCustomSocket(ctx, func() (net.PacketConn, error) { return w.sock, nil })
}

var c20Mu sync.Mutex // http.DefaultTransport and the verifhook ServeHTTP seam are process-global

func (c20) Run(e *Env) {
	e.ProbeDecl("invocation", "invocation-without-data", "upstream-slow", "upstream-5xx-then-ok", "upstream-abandoned", "telemetry-other-records", "telemetry-init-runtime-done", "datapoint-during-init", "startup-failure", "shutdown", "flush-split-into-several-requests", "datapoint-holding-slot-at-flush", "datapoint-released-after-flush-began", "datapoint-with-non-utf8-tag")
	c20Mu.Lock()
	defer c20Mu.Unlock()
	fab := NewFabric()
	fab.KeyFn = func(r *HTTPReq) string {
		if r.Host != "upstream" {
			return r.Path
		}
		obs, _ := decodeBody(r) // canonical content: compressed protobuf bytes are not stable across executions
		var ms []string
		for _, o := range obs {
			ms = append(ms, o.Members...)
			if o.Kind == "counter" && strings.HasPrefix(o.Name, "lambda.c.") {
				ms = append(ms, strings.TrimPrefix(o.Name, "lambda.c.")) // counter datapoints are named after themselves
			}
		}
		sort.Strings(ms)
		return strings.Join(ms, ",")
	}
	oldT := http.DefaultTransport
	http.DefaultTransport = fab // the manager uses &http.Client{}
	defer func() { http.DefaultTransport = oldT }()
	telemetryAddr := "sandbox:8083"
	var teleHandler atomic.Value
	verifhook.SetServeHTTP(func(ctx context.Context, addr string, h http.Handler) (bool, error) {
		teleHandler.Store(h)
		fab.Handle(addr, h)
		<-ctx.Done()
		return true, nil
	})
	defer verifhook.SetServeHTTP(nil)

	window := []time.Duration{-1, 2 * time.Second, 5 * time.Second}[e.Draw(3)]
	v := viper.New()
	v.Set("http-transport.api-endpoint", "http://upstream")
	v.Set("http-transport.consolidator-slots", e.Range(1, 3))
	maxReq := e.Range(1, 4)
	v.Set("http-transport.max-requests", maxReq)
	v.Set("http-transport.compress", e.Bool())
	v.Set("http-transport.max-request-elapsed-time", window)
	v.Set("http-transport.flush-interval", time.Second)
	// dynamic headers split one flush into several upstream requests (or none); the coordinator still
	// has a single waiter per flush
	dynHeaders := e.Chance(1, 2)
	if dynHeaders {
		v.Set("http-transport.dynamic-headers", []string{"service"})
	}
	pool := transport.NewTransportPool(logrus.StandardLogger(), v)
	cl, _ := pool.Get("default")
	cl.Client.Transport = fab
	fc := flush.NewFlushCoordinator()
	startupFailure := e.Chance(1, 8)
	// a quarter of the runs arm the H1 yield site inside the consolidator: a datapoint being merged
	// holds its slot while the end-of-invocation flush begins
	yg := &yieldGate{gate: NewGate("yield"), anyObj: true, sites: map[string]bool{}}
	if e.Chance(1, 4) {
		yg.sites["consolidator.receive.holding-slot"] = true
		verifhook.SetYield(yg.fn)
		defer verifhook.SetYield(nil)
		defer yg.gate.Open(nil)
		e.Probe("datapoint-holding-slot-at-flush")
	}
	sock := NewSimSocket()
	srv := &statsd.Server{
		Viper: v, TransportPool: pool, ForwarderFlushCoordinator: fc, ServerMode: "forwarder",
		MaxReaders: 1, MaxParsers: 1, MaxWorkers: 1, MaxQueueSize: 4, ReceiveBatchSize: 1, FlushInterval: time.Hour,
		StatserType: gostatsd.StatserNull, Hostname: "lambda", DisableInternalEvents: true,
	}
	wrap := &c20Server{s: srv, sock: sock}
	if startupFailure {
		wrap.fail = []error{
			fmt.Errorf("simulated start-up failure: cannot bind metrics address"),
			fmt.Errorf("simulated start-up failure: dial statsd upstream: %w", context.Canceled),
			fmt.Errorf("simulated start-up failure: resolve: %w", context.DeadlineExceeded),
		}[e.Draw(3)]
		e.Probe("startup-failure")
	}
	mgr := extension.NewManager("lambda", "gostatsd", logrus.StandardLogger(), wrap, extension.WithManualFlushEnabled(fc, telemetryAddr))

	up := &RecHandler{Env: e}
	upSrv, err := web.NewHttpServer(logrus.StandardLogger(), up, "upstream", "upstream", false, false, true, false, nil, nil)
	if err != nil {
		e.Failf("C20/harness", "%v", err)
	}
	fab.Handle("upstream", upSrv.Router)
	var initErrors, exitErrors atomic.Int32
	lambdaAPI := http.NewServeMux()
	lambdaAPI.HandleFunc("/2020-01-01/extension/register", func(w http.ResponseWriter, r *http.Request) {
		w.Header().Set("Lambda-Extension-Identifier", "ext-1")
		w.WriteHeader(200)
		w.Write([]byte(`{"functionName":"f","functionVersion":"1","handler":"h"}`))
	})
	lambdaAPI.HandleFunc("/2022-07-01/telemetry", func(w http.ResponseWriter, r *http.Request) { w.WriteHeader(200); w.Write([]byte(`"OK"`)) })
	lambdaAPI.HandleFunc("/2020-01-01/extension/init/error", func(w http.ResponseWriter, r *http.Request) {
		initErrors.Add(1)
		w.WriteHeader(202)
		w.Write([]byte(`{"status":"OK"}`))
	})
	lambdaAPI.HandleFunc("/2020-01-01/extension/exit/error", func(w http.ResponseWriter, r *http.Request) {
		exitErrors.Add(1)
		w.WriteHeader(202)
		w.Write([]byte(`{"status":"OK"}`))
	})
	fab.Handle("lambda", lambdaAPI)

	ctx, cancel := context.WithCancel(context.Background())
	runDone := make(chan error, 1)
	go func() { runDone <- mgr.Run(ctx) }()
	var wg sync.WaitGroup
	finished := false
	defer func() {
		cancel()
		fab.Gate.Open(nil)
		if !finished {
			select {
			case <-runDone:
			case <-time.After(60 * time.Second):
				e.Report("C20/extension-does-not-stop", "the extension did not stop within 60 simulated seconds of cancellation")
				panic(abortRun{})
			}
		}
		wg.Wait()
		time.Sleep(12 * time.Second) // net/http client timer goroutines
	}()

	// ---- model
	type dp struct {
		member string
		inv    int  // invocation it was accepted in (0 = before the first /next)
		doneAt bool // accepted before that invocation's runtime-done
	}
	var dps []*dp
	bodyDPs := map[string][]string{} // canonical body -> set members it carries
	bodyResolved := map[string]bool{}
	reqSeen := 0
	nextAnswer := func(kind string) HTTPOutcome {
		b, _ := json.Marshal(map[string]any{"eventType": kind, "deadlineMs": 1, "requestId": "r", "invokedFunctionArn": "arn"})
		return HTTPOutcome{Kind: "status", Status: 200, Body: b}
	}
	invocation := 0         // number of INVOKE answers given
	runtimeDoneSent := true // for the current invocation (vacuously true before the first)
	lastDoneInvocation := 0 // highest invocation whose runtime-done telemetry has been delivered
	var pendingNext *Parked // the parked GET /event/next
	var parkedUp []*Parked  // parked upstream requests
	nDP := 0

	slowRuntimeAPI := e.Chance(1, 3)
	canonBody := func(r *HTTPReq) (string, []string) {
		obs, _ := decodeBody(r)
		var ms []string
		for _, o := range obs {
			ms = append(ms, o.Members...)
			if o.Kind == "counter" && strings.HasPrefix(o.Name, "lambda.c.") {
				ms = append(ms, strings.TrimPrefix(o.Name, "lambda.c."))
			}
		}
		sort.Strings(ms)
		return strings.Join(ms, ","), ms
	}

	// classify what is parked; auto-serve the control-plane requests
	scan := func() {
		for {
			e.Settle()
			progressed := false
			pendingNext = nil
			parkedUp = nil
			for _, p := range fab.Gate.Parked() {
				r := p.Arg.(*HTTPReq)
				switch {
				case r.Host == "lambda" && strings.HasSuffix(r.Path, "/event/next"):
					pendingNext = p
				case r.Host == "lambda":
					if slowRuntimeAPI && strings.Contains(r.Path, "telemetry") {
						// the runtime answers the subscription call slowly
						e.Fault("runtime-api-latency")
						e.Probe("slow-telemetry-subscription")
						time.Sleep(time.Duration(50+e.Draw(200)) * time.Millisecond)
					}
					fab.Gate.Release(p, HTTPOutcome{Kind: "serve"})
					progressed = true
				case r.Host == "upstream":
					parkedUp = append(parkedUp, p)
				}
			}
			// requests that arrived within one step come from goroutines started in Go map order (the
			// per-header split): canonicalise by content
			var fresh []*HTTPReq
			for ; reqSeen < fab.NReqs(); reqSeen++ {
				fresh = append(fresh, fab.Req(reqSeen))
			}
			sort.SliceStable(fresh, func(i, j int) bool {
				if fresh[i].Host != fresh[j].Host {
					return fresh[i].Host < fresh[j].Host
				}
				if fresh[i].Canon != fresh[j].Canon {
					return fresh[i].Canon < fresh[j].Canon
				}
				return fresh[i].Attempt < fresh[j].Attempt
			})
			for _, r := range fresh {
				if r.Host != "upstream" {
					if r.Host == "lambda" && strings.HasSuffix(r.Path, "/event/next") {
						e.Event("GET /event/next (invocations so far %d)", invocation)
					}
					continue
				}
				key, ms := canonBody(r)
				if _, ok := bodyDPs[key]; !ok {
					bodyDPs[key] = ms
				}
				if bodyResolved[key] && len(ms) > 0 {
					e.Failf("C20/upstream-attempt-after-next-requested", "a further delivery attempt for datapoints %v arrived after the extension had already asked for the next event", ms)
				}
				e.Event("POST upstream %v attempt %d", ms, r.Attempt)
			}
			if !progressed {
				return
			}
		}
	}
	// the invariant that must hold whenever GET /event/next is outstanding
	checkNext := func(where string) {
		if pendingNext == nil {
			return
		}
		if !runtimeDoneSent {
			e.Failf("C20/next-requested-before-runtime-done", "%s: the extension asked for the next event while invocation %d is still running (no runtime-done yet, so no flush can have been triggered for it)", where, invocation)
		}
		if len(parkedUp) > 0 {
			var what []string
			for _, p := range parkedUp {
				_, ms := canonBody(p.Arg.(*HTTPReq))
				what = append(what, fmt.Sprint(ms))
			}
			e.Failf("C20/next-requested-while-delivery-in-flight", "%s: the extension asked for the next event while upstream requests carrying %v are still unanswered", where, what)
		}
		for _, d := range dps {
			if d.inv <= lastDoneInvocation && d.doneAt {
				found := false
				for key, ms := range bodyDPs {
					for _, m := range ms {
						if m == d.member && key != "" {
							found = true
						}
					}
				}
				if !found {
					e.Failf("C20/next-requested-before-datapoint-sent", "%s: datapoint %s was accepted before the runtime-done of invocation %d, the extension has asked for the next event, yet no upstream request has carried it", where, d.member, d.inv)
				}
			}
		}
		// from now on, bodies seen so far must not be retried any more (the flush has "finished")
		for key := range bodyDPs {
			bodyResolved[key] = true
		}
	}
	sendDP := func(beforeDone bool) {
		e.Settle()
		if sock.Waiting() == 0 {
			return
		}
		nDP++
		d := &dp{member: fmt.Sprintf("dp%d", nDP), inv: invocation, doneAt: beforeDone}
		dps = append(dps, d)
		line := fmt.Sprintf("lambda.set:%s|s", d.member)
		if e.Chance(1, 5) {
			// a counter datapoint, one in two of value 0 ("0 errors" is a datapoint like any other)
			line = fmt.Sprintf("lambda.c.%s:%d|c", d.member, e.Draw(2))
			e.Probe("counter-datapoint")
		}
		if dynHeaders {
			if svc := []string{"", "a", "b", "c"}[e.Draw(4)]; svc != "" {
				line += "|#service:" + svc
			}
		}
		if e.Chance(1, 8) {
			// a tag value that is not valid UTF-8 (the parser passes such bytes on)
			if strings.Contains(line, "|#") {
				line += ",path:/caf\xe9"
			} else {
				line += "|#path:/caf\xe9"
			}
			e.Probe("datapoint-with-non-utf8-tag")
		}
		if len(yg.sites) > 0 {
			yg.off.Store(!e.Chance(1, 3)) // only some datapoints are caught in the middle of their merge
		}
		sock.Deliver(&Dgram{ID: nDP, Payload: []byte(line), Addr: ClientAddr(0)})
		e.Settle()
		yg.off.Store(true)
		if yg.gate.Len() > 0 {
			// still being merged (parked holding its consolidator slot): in flight, not yet accepted
			d.doneAt = false
			e.Event("datapoint %s in flight, holding its slot (invocation %d)", d.member, invocation)
			return
		}
		e.Event("datapoint %s accepted in invocation %d", d.member, invocation)
	}
	telemetry := func(withDone bool) {
		var recs []map[string]any
		add := func(t string) {
			recs = append(recs, map[string]any{"time": "2000-01-01T00:00:00Z", "type": t, "record": map[string]any{}})
		}
		for i, n := 0, e.Draw(3); i < n; i++ {
			t := []string{"platform.start", "platform.initStart", "platform.initRuntimeDone", "platform.initReport", "platform.restoreRuntimeDone", "platform.extension", "function", "platform.logsDropped"}[e.Draw(8)]
			if strings.Contains(t, "RuntimeDone") {
				e.Probe("telemetry-init-runtime-done")
			}
			add(t)
			e.Probe("telemetry-other-records")
		}
		if withDone {
			add("platform.runtimeDone")
		}
		for i, n := 0, e.Draw(2); i < n; i++ {
			add([]string{"platform.report", "function", "platform.telemetrySubscription"}[e.Draw(3)])
		}
		body, _ := json.Marshal(recs)
		wg.Add(1)
		go func() {
			defer wg.Done()
			fab.Serve(&HTTPReq{Method: "POST", Host: telemetryAddr, Path: "/telemetry", Header: http.Header{"Content-Type": {"application/json"}}, Body: body})
		}()
		e.Event("telemetry batch done=%v records=%d", withDone, len(recs))
	}
	advanceUntil := func(cond func() bool, max time.Duration, what string) {
		start := time.Now()
		for {
			scan()
			e.Check()
			if cond() {
				return
			}
			if time.Since(start) > max {
				e.Failf("C20/stalled", "%s did not happen within %v of simulated time", what, max)
			}
			time.Sleep(50 * time.Millisecond)
		}
	}

	// ---- init phase
	if !startupFailure && e.Bool() {
		// a datapoint accepted during the init window must be covered by the initial flush
		time.Sleep(20 * time.Millisecond)
		scan()
		if sock.Waiting() > 0 {
			sendDP(true)
			e.Probe("datapoint-during-init")
		}
	}
	if startupFailure {
		for i := 0; ; i++ {
			scan()
			select {
			case err := <-runDone:
				finished = true
				scan()
				if err == nil {
					e.Failf("C20/startup-failure-not-reported", "Run returned nil although the server failed during start-up")
				}
				if initErrors.Load() != 1 {
					e.Failf("C20/init-error-not-posted", "the server failed during start-up; POST /extension/init/error reached the runtime %d times (Run returned %v)", initErrors.Load(), err)
				}
				return
			default:
			}
			if i > 100 {
				e.Failf("C20/stalled", "start-up failure: Run did not return within 5 simulated seconds")
			}
			time.Sleep(50 * time.Millisecond)
		}
	}
	// serve control plane until the first GET /event/next is outstanding; upstream posts of the initial
	// flush are answered by the scheduler like any other
	resolveUpstream := func(phase string) {
		// answer parked upstream requests with PRNG-chosen latency and outcome until none is left
		for guard := 0; guard < 400; guard++ {
			scan()
			checkNext(phase)
			e.Check()
			if runtimeDoneSent && yg.gate.Len() > 0 && guard > 0 {
				// the flush has begun (it waits for the held slot); now the merge completes
				for _, p := range yg.gate.Parked() {
					yg.gate.Release(p, nil)
				}
				e.Probe("datapoint-released-after-flush-began")
				e.Event("held datapoint released")
				scan()
				checkNext(phase)
			}
			if dynHeaders && len(parkedUp) >= maxReq {
				e.Unstable("request-tokens-saturated") // which header group gets the last token follows a Go map walk
			}
			if len(parkedUp) == 0 && yg.gate.Len() == 0 {
				return
			}
			if len(parkedUp) == 0 {
				time.Sleep(50 * time.Millisecond)
				continue
			}
			if len(parkedUp) > 1 {
				e.Probe("flush-split-into-several-requests")
			}
			p := parkedUp[e.Choose("upstream-req", len(parkedUp))]
			r := p.Arg.(*HTTPReq)
			switch e.Weighted("upstream", []int{5, 3, 2, 1}) {
			case 0:
				fab.Gate.Release(p, HTTPOutcome{Kind: "serve"})
			case 1:
				d := time.Duration(1+e.Draw(30)) * 100 * time.Millisecond
				e.Probe("upstream-slow")
				e.Fault("upstream-latency")
				e.Event("upstream holds %v", d)
				time.Sleep(d)
				scan()
				checkNext(phase + " (during upstream latency)")
				if fab.Gate.Len() > 0 {
					for _, q := range fab.Gate.Parked() {
						if q == p {
							fab.Gate.Release(p, HTTPOutcome{Kind: "serve"})
						}
					}
				}
			case 2:
				fab.Gate.Release(p, HTTPOutcome{Kind: "status", Status: 503})
				e.Fault("upstream-5xx")
				if window < 0 {
					e.Probe("upstream-abandoned")
				}
				e.Probe("upstream-5xx-then-ok")
			case 3:
				fab.Gate.Release(p, HTTPOutcome{Kind: "conn-error"})
				e.Fault("upstream-conn-error")
			}
			e.Event("upstream answered attempt %d", r.Attempt)
			scan()
			checkNext(phase)
			// back-off before a retry
			if len(parkedUp) == 0 {
				for i := 0; i < 20; i++ {
					time.Sleep(100 * time.Millisecond)
					scan()
					checkNext(phase + " (back-off)")
					if len(parkedUp) > 0 || pendingNext != nil {
						break
					}
				}
			}
			if pendingNext != nil && len(parkedUp) == 0 {
				return
			}
		}
	}
	resolveUpstream("initial flush")
	advanceUntil(func() bool { resolveUpstream("initial flush"); return pendingNext != nil }, 40*time.Second, "the first GET /event/next")
	checkNext("first GET /event/next")
	lastDoneInvocation = 0

	nInv := e.Range(1, 5*e.Depth())
	for inv := 1; inv <= nInv; inv++ {
		// the runtime hands out an invocation
		invocation = inv
		runtimeDoneSent = false
		e.Probe("invocation")
		e.Event("answer /event/next with INVOKE %d", inv)
		fab.Gate.Release(pendingNext, nextAnswer("INVOKE"))
		pendingNext = nil
		scan()
		checkNext(fmt.Sprintf("invocation %d just started", inv))
		nd := e.Draw(6)
		if nd == 0 {
			e.Probe("invocation-without-data")
		}
		for i := 0; i < nd; i++ {
			sendDP(true)
			if e.Chance(1, 3) {
				telemetry(false) // telemetry batches without runtime-done while the function runs
				scan()
				checkNext(fmt.Sprintf("invocation %d running", inv))
			}
			if e.Chance(1, 3) {
				time.Sleep(time.Duration(1+e.Draw(200)) * time.Millisecond)
			}
			scan()
			checkNext(fmt.Sprintf("invocation %d running", inv))
		}
		// the function returns: runtime-done arrives (among other records)
		runtimeDoneSent = true
		lastDoneInvocation = inv
		telemetry(true)
		resolveUpstream(fmt.Sprintf("flush of invocation %d", inv))
		advanceUntil(func() bool { resolveUpstream(fmt.Sprintf("flush of invocation %d", inv)); return pendingNext != nil }, 60*time.Second, fmt.Sprintf("GET /event/next after invocation %d", inv))
		checkNext(fmt.Sprintf("GET /event/next after invocation %d", inv))
		e.State("inv=%d bodies=%d", inv, len(bodyDPs))
		e.Overlap = true
	}
	// shutdown
	e.Probe("shutdown")
	fab.Gate.Release(pendingNext, nextAnswer("SHUTDOWN"))
	pendingNext = nil
	e.Settle()
	cancel() // the platform then terminates the sandbox: the process context ends
	select {
	case err := <-runDone:
		finished = true
		if err != nil {
			e.Failf("C20/shutdown-error", "Run returned %v after a SHUTDOWN event", err)
		}
	case <-time.After(30 * time.Second):
		e.Failf("C20/stalled", "the extension did not stop within 30 simulated seconds of the SHUTDOWN event")
	}
	if initErrors.Load() != 0 {
		e.Failf("C20/spurious-init-error", "POST /extension/init/error was sent %d times although start-up succeeded", initErrors.Load())
	}
	// every accepted datapoint reached (or was refused by) the upstream
	for _, d := range dps {
		found := false
		for _, ms := range bodyDPs {
			for _, m := range ms {
				if m == d.member {
					found = true
				}
			}
		}
		if !found && !d.doneAt && d.inv >= nInv {
			continue // still in flight when the last runtime-done arrived: no later flush exists to carry it
		}
		if !found {
			e.Failf("C20/datapoint-never-sent", "datapoint %s (invocation %d) never appeared in an upstream request", d.member, d.inv)
		}
	}
	e.Note["invocations"] = nInv
	e.Note["datapoints"] = nDP
}
