package verifsim

// w6_smoke_test.go — self-test of world W6: every backend kind is built, run inside a synctest bubble,
// given one realistic flushed MetricMap, every parked transport operation is released with success, and
// the send callback must fire exactly once without an error. As a bonus the bytes that reached the
// simulated transport must be decodable by the independent decoders of w6_decode.go.
//
//	GODEBUG=randseednop=0 /tmp/x.test -test.run TestW6Smoke -test.v

import (
	"context"
	"io"
	"strings"
	"sync"
	"testing"
	"testing/synctest"
	"time"

	"github.com/sirupsen/logrus"

	"github.com/atlassian/gostatsd"
	"github.com/atlassian/gostatsd/pkg/statsd"
)

// w6FlushedMap pushes a counter, a gauge, a timer with several values and a set through a real
// MetricAggregator (ReceiveMap + Flush + Process) and returns the flushed map. The aggregator is never
// Reset, so the map stays as flushed.
func w6FlushedMap(flushInterval time.Duration) *gostatsd.MetricMap {
	in := gostatsd.NewMetricMap(false)
	ts := gostatsd.Nanotime(time.Now().UnixNano())
	tags := func() gostatsd.Tags { return gostatsd.Tags{"env:prod", "region:us"} }
	in.Receive(&gostatsd.Metric{Name: "w6.counter", Type: gostatsd.COUNTER, Value: 5, Rate: 1, Tags: tags(), Source: "10.0.0.1", Timestamp: ts})
	in.Receive(&gostatsd.Metric{Name: "w6.counter", Type: gostatsd.COUNTER, Value: 7, Rate: 1, Tags: tags(), Source: "10.0.0.1", Timestamp: ts})
	in.Receive(&gostatsd.Metric{Name: "w6.gauge", Type: gostatsd.GAUGE, Value: 3.25, Rate: 1, Tags: tags(), Source: "10.0.0.1", Timestamp: ts})
	for _, v := range []float64{10, 20, 30, 40} {
		in.Receive(&gostatsd.Metric{Name: "w6.timer", Type: gostatsd.TIMER, Value: v, Rate: 1, Tags: tags(), Source: "10.0.0.1", Timestamp: ts})
	}
	for _, m := range []string{"alice", "bob", "alice"} {
		in.Receive(&gostatsd.Metric{Name: "w6.set", Type: gostatsd.SET, StringValue: m, Rate: 1, Tags: tags(), Source: "10.0.0.1", Timestamp: ts})
	}
	agg := statsd.NewMetricAggregator([]float64{90}, time.Hour, time.Hour, time.Hour, time.Hour, gostatsd.TimerSubtypes{}, 0)
	agg.ReceiveMap(in)
	agg.Flush(flushInterval)
	var out *gostatsd.MetricMap
	agg.Process(func(mm *gostatsd.MetricMap) { out = mm })
	return out
}

// w6ReleaseAll releases everything parked at the simulated transports with success and returns how
// many entries it released.
func w6ReleaseAll(bb *BuiltBackend, fab *Fabric, conns *ConnSim, cw *CWSim) int {
	n := 0
	for _, p := range fab.Gate.Parked() {
		fab.Gate.Release(p, HTTPOutcome{Kind: "status", Status: bb.OKStatus})
		n++
	}
	for _, p := range conns.DialGate.Parked() {
		conns.DialGate.Release(p, ConnOutcome{})
		n++
	}
	for _, p := range conns.WriteGate.Parked() {
		conns.WriteGate.Release(p, WriteOutcome{N: -1})
		n++
	}
	for _, p := range cw.Gate.Parked() {
		cw.Gate.Release(p, CWOutcome{})
		n++
	}
	return n
}

func TestW6Smoke(t *testing.T) {
	logSetup.Do(func() {
		logrus.SetOutput(io.Discard)
		logrus.SetLevel(logrus.PanicLevel)
	})
	specs := []BackendSpec{}
	for _, k := range BackendKinds {
		specs = append(specs, BackendSpec{Kind: k})
	}
	// a few non-default specs: compression on, tiny batches, one request at a time, retries off
	specs = append(specs,
		BackendSpec{Kind: "datadog", Compress: true, BatchSize: 21, MaxRequests: 1, RetryWindow: -1},
		BackendSpec{Kind: "influxdb-v2", Compress: true, BatchSize: 1, MaxRequests: 1, RetryWindow: time.Second},
		BackendSpec{Kind: "newrelic-insights", BatchSize: 21, MaxRequests: 2},
		BackendSpec{Kind: "otlp-gauge", Compress: true, BatchSize: 3, MaxRequests: 1, RetryWindow: 2 * time.Second, Disabled: gostatsd.TimerSubtypes{Median: true, StdDev: true}},
		BackendSpec{Kind: "otlp-histogram", Compress: true},
		BackendSpec{Kind: "graphite-tags", Disabled: gostatsd.TimerSubtypes{Lower: true, StdDev: true}},
	)
	for i, spec := range specs {
		name := spec.Kind
		if i >= len(BackendKinds) {
			name += "/tuned"
		}
		t.Run(name, func(t *testing.T) {
			synctest.Test(t, func(t *testing.T) { w6SmokeOne(t, spec) })
		})
	}
}

func w6SmokeOne(t *testing.T, spec BackendSpec) {
	fab, conns, cw := NewFabric(), NewConnSim(), NewCWSim()
	bb, err := BuildBackend(spec, fab, conns, cw)
	if err != nil {
		t.Fatalf("BuildBackend: %v", err)
	}
	wantTransport := map[string]string{"graphite": "conn", "statsdaemon": "conn", "datadog": "http", "influxdb": "http", "newrelic": "http",
		"otlp": "http", "cloudwatch": "cloudwatch", "stdout": "none", "null": "none"}[bb.Backend.Name()]
	if bb.Transport != wantTransport {
		t.Fatalf("backend %s: transport %q, want %q", bb.Backend.Name(), bb.Transport, wantTransport)
	}
	mm := w6FlushedMap(W6DefaultFlushInterval)

	ctx, cancel := context.WithCancel(context.Background())
	var wg sync.WaitGroup
	// teardown (runs last-in-first-out): cancel, open every gate so that nothing stays parked, wait
	defer wg.Wait()
	defer func() {
		cancel()
		fab.Gate.Open(nil)
		conns.DialGate.Open(nil)
		conns.WriteGate.Open(nil)
		cw.Gate.Open(nil)
	}()
	if bb.Run != nil {
		wg.Add(1)
		go func() { defer wg.Done(); bb.Run(ctx) }()
	}

	var mu sync.Mutex
	calls := 0
	var cbErrs []error
	nCalls := func() int { mu.Lock(); defer mu.Unlock(); return calls }
	// SendMetricsAsync may block until its requests are answered (otlp waits for all of them; influxdb
	// waits for a free request buffer), so it gets its own goroutine.
	wg.Add(1)
	go func() {
		defer wg.Done()
		bb.Backend.SendMetricsAsync(ctx, mm, func(errs []error) {
			mu.Lock()
			calls++
			cbErrs = append(cbErrs, errs...)
			mu.Unlock()
		})
	}()

	released := 0
	for i := 0; nCalls() == 0; i++ {
		synctest.Wait()
		n := w6ReleaseAll(bb, fab, conns, cw)
		released += n
		if n == 0 && nCalls() == 0 {
			if i > 200 {
				t.Fatalf("callback did not fire: parked http=%d dial=%d write=%d cw=%d, released so far %d",
					fab.Gate.Len(), conns.DialGate.Len(), conns.WriteGate.Len(), cw.Gate.Len(), released)
			}
			time.Sleep(100 * time.Millisecond) // nothing to release: let timers (if any) run
		}
	}
	// nothing may call back a second time, now or after some time has passed (this also lets the
	// http.Client timer goroutines of the otlp backend end, see BuiltBackend.ClientTimeout)
	synctest.Wait()
	time.Sleep(30*time.Second + bb.ClientTimeout)
	synctest.Wait()
	if n := w6ReleaseAll(bb, fab, conns, cw); n != 0 {
		t.Errorf("%d transport operations started after the callback", n)
	}
	if n := nCalls(); n != 1 {
		t.Fatalf("callback fired %d times, want exactly once", n)
	}
	for _, e := range cbErrs {
		if e != nil {
			t.Errorf("callback reported an error: %v", e)
		}
	}
	if bb.Transport != "none" && released == 0 {
		t.Errorf("transport %q: nothing ever parked at a gate", bb.Transport)
	}

	// what reached the transport must decode, and mention every series that was sent
	var pts []WirePoint
	switch bb.Transport {
	case "http":
		if fab.NReqs() == 0 {
			t.Fatalf("no request reached the fabric")
		}
		for i := 0; i < fab.NReqs(); i++ {
			r := fab.Req(i)
			if r.Host != bb.Host || r.Path != bb.Path || r.Method != "POST" {
				t.Errorf("request %d is %s %s%s, want POST %s%s", i, r.Method, r.Host, r.Path, bb.Host, bb.Path)
			}
			p, err := DecodeHTTP(spec.Kind, r)
			if err != nil {
				t.Fatalf("request %d does not decode: %v", i, err)
			}
			pts = append(pts, p...)
		}
	case "conn":
		if conns.NConns() != 1 {
			t.Errorf("%d connections, want 1", conns.NConns())
		}
		for _, chunk := range conns.WrittenChunks() {
			p, err := DecodeConn(spec.Kind, chunk)
			if err != nil {
				t.Fatalf("written bytes do not decode: %v", err)
			}
			pts = append(pts, p...)
		}
	case "cloudwatch":
		for i := 0; i < cw.NInputs(); i++ {
			in := cw.Input(i)
			if in.Namespace == nil || *in.Namespace != W6CloudwatchNS {
				t.Errorf("input %d: wrong namespace", i)
			}
			p, err := DecodeCW(in)
			if err != nil {
				t.Fatalf("input %d does not decode: %v", i, err)
			}
			pts = append(pts, p...)
		}
	}
	if bb.Transport != "none" {
		for _, series := range []string{"w6.counter", "w6.gauge", "w6.timer", "w6.set"} {
			found := false
			for _, p := range pts {
				if strings.Contains(p.Name, series) {
					found = true
					break
				}
			}
			if !found {
				t.Errorf("no decoded point mentions %s (decoded %d points)", series, len(pts))
			}
		}
		t.Logf("%s: %d transport operations, %d decoded points, e.g. %v", spec.Kind, released, len(pts), pts[0])
	}
}

// TestW6SmokeFaults exercises the failure outcomes of the simulated transports: a refused dial, a short
// write, a failing PutMetricData, an HTTP 500 with retries off. Each time the callback must fire exactly
// once and report an error.
func TestW6SmokeFaults(t *testing.T) {
	logSetup.Do(func() {
		logrus.SetOutput(io.Discard)
		logrus.SetLevel(logrus.PanicLevel)
	})
	type world struct {
		bb    *BuiltBackend
		fab   *Fabric
		conns *ConnSim
		cw    *CWSim
		calls func() (int, []error)
	}
	// start builds the backend, starts Run and one SendMetricsAsync; the returned func tears down.
	start := func(t *testing.T, spec BackendSpec) (*world, func()) {
		w := &world{fab: NewFabric(), conns: NewConnSim(), cw: NewCWSim()}
		bb, err := BuildBackend(spec, w.fab, w.conns, w.cw)
		if err != nil {
			t.Fatalf("BuildBackend: %v", err)
		}
		w.bb = bb
		ctx, cancel := context.WithCancel(context.Background())
		var wg sync.WaitGroup
		var mu sync.Mutex
		n := 0
		var errs []error
		w.calls = func() (int, []error) { mu.Lock(); defer mu.Unlock(); return n, append([]error(nil), errs...) }
		if bb.Run != nil {
			wg.Add(1)
			go func() { defer wg.Done(); bb.Run(ctx) }()
		}
		mm := w6FlushedMap(W6DefaultFlushInterval)
		wg.Add(1)
		go func() {
			defer wg.Done()
			bb.Backend.SendMetricsAsync(ctx, mm, func(e []error) { mu.Lock(); n++; errs = append(errs, e...); mu.Unlock() })
		}()
		synctest.Wait()
		return w, func() {
			cancel()
			w.fab.Gate.Open(nil)
			w.conns.DialGate.Open(nil)
			w.conns.WriteGate.Open(nil)
			w.cw.Gate.Open(nil)
			wg.Wait()
		}
	}
	one := func(t *testing.T, g *Gate) *Parked {
		t.Helper()
		synctest.Wait()
		ps := g.Parked()
		if len(ps) != 1 {
			t.Fatalf("gate %s: %d parked, want 1", g.Name, len(ps))
		}
		return ps[0]
	}
	wantOneError := func(t *testing.T, w *world) {
		t.Helper()
		synctest.Wait()
		n, errs := w.calls()
		nonNil := 0
		for _, e := range errs {
			if e != nil {
				nonNil++
			}
		}
		if n != 1 || nonNil == 0 {
			t.Fatalf("callback fired %d times with errors %v; want once, with an error", n, errs)
		}
	}

	t.Run("graphite refused dial then short write", func(t *testing.T) {
		synctest.Test(t, func(t *testing.T) {
			w, stop := start(t, BackendSpec{Kind: "graphite-basic"})
			defer stop()
			p := one(t, w.conns.DialGate)
			if p.Key != "dial#0" {
				t.Fatalf("dial key %q", p.Key)
			}
			w.conns.DialGate.Release(p, ConnOutcome{Err: errConnRefused})
			synctest.Wait()
			if w.conns.DialGate.Len() != 0 {
				t.Fatalf("the sender redialled without waiting")
			}
			time.Sleep(time.Second) // the sender's fixed redial delay
			p = one(t, w.conns.DialGate)
			if p.Key != "dial#1" {
				t.Fatalf("dial key %q", p.Key)
			}
			w.conns.DialGate.Release(p, ConnOutcome{})
			p = one(t, w.conns.WriteGate)
			if !strings.HasPrefix(p.Key, "write#0#0:stats.") {
				t.Fatalf("write key %q", p.Key)
			}
			w.conns.WriteGate.Release(p, WriteOutcome{N: 10}) // short write without an error of its own
			// the sender drops the connection and dials again before it reports the failed stream
			p = one(t, w.conns.DialGate)
			w.conns.DialGate.Release(p, ConnOutcome{})
			wantOneError(t, w)
			if !w.conns.ConnAt(0).IsClosed() {
				t.Errorf("connection 0 was not closed after the failed write")
			}
			if got := string(w.conns.AllWritten()); len(got) != 10 {
				t.Errorf("accepted bytes %q, want the 10 byte prefix", got)
			}
		})
	})
	t.Run("statsdaemon write error", func(t *testing.T) {
		synctest.Test(t, func(t *testing.T) {
			w, stop := start(t, BackendSpec{Kind: "statsdaemon-udp"})
			defer stop()
			w.conns.DialGate.Release(one(t, w.conns.DialGate), ConnOutcome{})
			w.conns.WriteGate.Release(one(t, w.conns.WriteGate), WriteOutcome{N: 0, Err: errConnReset})
			w.conns.DialGate.Release(one(t, w.conns.DialGate), ConnOutcome{})
			wantOneError(t, w)
			if len(w.conns.AllWritten()) != 0 {
				t.Errorf("a failed write left bytes behind")
			}
		})
	})
	t.Run("cloudwatch error", func(t *testing.T) {
		synctest.Test(t, func(t *testing.T) {
			w, stop := start(t, BackendSpec{Kind: "cloudwatch"})
			defer stop()
			p := one(t, w.cw.Gate)
			if p.Key != "put#0" {
				t.Fatalf("key %q", p.Key)
			}
			w.cw.Gate.Release(p, CWOutcome{Err: errCWUnavailable})
			wantOneError(t, w)
		})
	})
	t.Run("datadog 500 with retries off", func(t *testing.T) {
		synctest.Test(t, func(t *testing.T) {
			w, stop := start(t, BackendSpec{Kind: "datadog", RetryWindow: -1})
			defer stop()
			w.fab.Gate.Release(one(t, w.fab.Gate), HTTPOutcome{Kind: "status", Status: 500})
			wantOneError(t, w)
		})
	})
	t.Run("teardown with everything parked", func(t *testing.T) {
		for _, kind := range []string{"graphite-tags", "statsdaemon-tcp", "influxdb-v1", "otlp-gauge", "cloudwatch"} {
			synctest.Test(t, func(t *testing.T) {
				_, stop := start(t, BackendSpec{Kind: kind})
				stop() // cancel + open gates must let every goroutine end (else synctest reports a deadlock)
			})
		}
	})
}
