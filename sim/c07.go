package verifsim

// C07 — merging batches is independent of order and grouping.
// The same family of batches is pushed through one of the real merge points under a
// scheduler-chosen order/grouping; the result must be the reference aggregate.

import (
	"context"
	"fmt"
	"sort"
	"strings"
	"sync"
	"sync/atomic"
	"time"

	"github.com/atlassian/gostatsd"
	"github.com/atlassian/gostatsd/internal/verifhook"
	"github.com/atlassian/gostatsd/pkg/statsd"
)

func init() { register("C07", func() Property { return c07{} }) }

type c07 struct{}

func (c07) ID() string { return "C07" }

// one datapoint of the C07 workload
type c07DP struct {
	kind   string
	name   string
	tags   []string
	source string
	value  float64
	rate   float64
	member string
	ts     int64
}

func (d c07DP) metric() *gostatsd.Metric {
	m := &gostatsd.Metric{Name: d.name, Tags: append(gostatsd.Tags(nil), d.tags...), Source: gostatsd.Source(d.source), Rate: d.rate, Value: d.value, StringValue: d.member, Timestamp: gostatsd.Nanotime(d.ts)}
	switch d.kind {
	case "counter":
		m.Type = gostatsd.COUNTER
	case "timer":
		m.Type = gostatsd.TIMER
	case "gauge":
		m.Type = gostatsd.GAUGE
	case "set":
		m.Type = gostatsd.SET
	}
	return m
}

// yieldGate adapts the verifhook Yield seam to a Gate for one object and a set of armed sites.
type yieldGate struct {
	gate   *Gate
	anyObj bool
	off    atomic.Bool // disarmed: every site passes
	names  sync.Map    // obj (batch pointer) -> stable name for gate keys
	obj    any
	sites  map[string]bool
	mu     sync.Mutex
	n      int
}

func (y *yieldGate) fn(site string, obj any) {
	if y.off.Load() || (!y.anyObj && obj != y.obj) || !y.sites[site] {
		return
	}
	y.mu.Lock()
	y.n++
	y.mu.Unlock()
	key := site
	if ms, isSlice := obj.([]*gostatsd.Metric); isSlice { // ReceiveMetrics passes its slice: identify it by its first element
		obj = nil
		if len(ms) > 0 {
			obj = ms[0]
		}
	}
	if obj == nil {
		y.gate.Arrive(key, nil)
		return
	}
	if n, ok := y.names.Load(obj); ok {
		key = site + "#" + n.(string)
	}
	y.gate.Arrive(key, nil)
}

// deepCopyMap copies a MetricMap so that the caller's original survives Merge's aliasing.
func deepCopyMap(mm *gostatsd.MetricMap) *gostatsd.MetricMap {
	out := gostatsd.NewMetricMap(mm.Forwarded)
	mm.Counters.Each(func(n, tk string, c gostatsd.Counter) {
		c.Tags = c.Tags.Copy()
		if out.Counters[n] == nil {
			out.Counters[n] = map[string]gostatsd.Counter{}
		}
		out.Counters[n][tk] = c
	})
	mm.Gauges.Each(func(n, tk string, g gostatsd.Gauge) {
		g.Tags = g.Tags.Copy()
		if out.Gauges[n] == nil {
			out.Gauges[n] = map[string]gostatsd.Gauge{}
		}
		out.Gauges[n][tk] = g
	})
	mm.Timers.Each(func(n, tk string, t gostatsd.Timer) {
		t.Tags = t.Tags.Copy()
		t.Values = append([]float64(nil), t.Values...)
		if out.Timers[n] == nil {
			out.Timers[n] = map[string]gostatsd.Timer{}
		}
		out.Timers[n][tk] = t
	})
	mm.Sets.Each(func(n, tk string, s gostatsd.Set) {
		s.Tags = s.Tags.Copy()
		v := map[string]struct{}{}
		for k := range s.Values {
			v[k] = struct{}{}
		}
		s.Values = v
		if out.Sets[n] == nil {
			out.Sets[n] = map[string]gostatsd.Set{}
		}
		out.Sets[n][tk] = s
	})
	return out
}

// compareAggregate checks an observed aggregate against the reference model.
func compareAggregate(e *Env, prop, where string, got map[SeriesKey]*Obs, want Model, checkTS bool) {
	for _, k := range sortedKeys(want) {
		w := want[k]
		g := got[k]
		if g == nil {
			e.Failf(prop+"/series-lost", "%s: series %s is missing from the merged result; have %v", where, k, sortedKeys(got))
		}
		switch w.Kind {
		case "counter":
			if g.Counter != w.Counter {
				e.Failf(prop+"/counter-sum", "%s: %s = %d, expected %d", where, k, g.Counter, w.Counter)
			}
		case "timer":
			if !floatsEqual(sortedFloats(g.Values), sortedFloats(w.Values)) {
				e.Failf(prop+"/timer-multiset", "%s: %s values %s, expected %s", where, k, fmtFloats(sortedFloats(g.Values)), fmtFloats(sortedFloats(w.Values)))
			}
			if !approx(g.Sampled, w.Sampled, 1e-9) {
				e.Failf(prop+"/timer-sampled-count", "%s: %s sampled count %v, expected %v", where, k, g.Sampled, w.Sampled)
			}
		case "set":
			if !sameStrings(g.Members, keysOf(w.Members)) {
				e.Failf(prop+"/set-union", "%s: %s members %v, expected %v", where, k, g.Members, keysOf(w.Members))
			}
		case "gauge":
			ok := false
			for _, alt := range w.GaugeAlt {
				if alt == g.Gauge {
					ok = true
				}
			}
			if !ok {
				e.Failf(prop+"/gauge-not-newest", "%s: gauge %s = %v, the datapoints carrying the newest timestamp %d say %v", where, k, g.Gauge, w.GaugeTS, w.GaugeAlt)
			}
		}
		if checkTS && g.TS != w.LastTS {
			e.Failf(prop+"/timestamp-not-newest", "%s: series %s carries timestamp %d, newest seen is %d", where, k, g.TS, w.LastTS)
		}
	}
	for _, k := range sortedKeys(got) {
		if want[k] == nil {
			e.Failf(prop+"/series-invented", "%s: series %s in the merged result was never sent", where, k)
		}
	}
}

// accumulate merges an observation into a running reference-side aggregate (for merge points that
// hand several maps downstream).
func accumulate(total map[SeriesKey]*Obs, obs map[SeriesKey]*Obs) {
	for k, o := range obs {
		t := total[k]
		if t == nil {
			c := *o
			c.Values = append([]float64(nil), o.Values...)
			c.Members = append([]string(nil), o.Members...)
			total[k] = &c
			continue
		}
		t.Counter += o.Counter
		t.Values = append(t.Values, o.Values...)
		t.Sampled += o.Sampled
		ms := map[string]bool{}
		for _, m := range t.Members {
			ms[m] = true
		}
		for _, m := range o.Members {
			if !ms[m] {
				t.Members = append(t.Members, m)
			}
		}
		sort.Strings(t.Members)
		if o.TS > t.TS || (o.TS == t.TS && o.Kind == "gauge") {
			if o.Kind == "gauge" {
				t.Gauge = o.Gauge
			}
		}
		if o.TS > t.TS {
			t.TS = o.TS
		}
	}
}

func (c07) Run(e *Env) {
	e.ProbeDecl("variant-mergemaps", "variant-consolidator", "variant-consolidator-receivemetrics", "variant-aggregator", "variant-tagstage", "variant-cloudqueue",
		"timestamp-tie", "zero-counter-newest", "sampled-timer-second-tagset", "dispatcher-parked-holding-slot", "two-holding-slots", "lookup-between-batches", "tag-collision", "twin-with-repeated-tag", "two-sources-one-instance")
	// workload: <= 8 batches over <= 5 series
	nSeries := e.Range(1, 5)
	type ser struct {
		kind, name, source string
		tags               []string
	}
	var series []ser
	for i := 0; i < nSeries; i++ {
		s := ser{kind: []string{"counter", "timer", "gauge", "set"}[e.Draw(4)], name: []string{"m.a", "m.b"}[e.Draw(2)], source: []string{"", "10.7.0.1", "10.7.0.2"}[e.Draw(3)]}
		for j, n := 0, e.Draw(3); j < n; j++ {
			s.tags = append(s.tags, []string{"t:1", "t:2", "dup", "zone:a"}[e.Draw(4)])
		}
		if i > 0 && e.Chance(1, 4) {
			// a twin of the previous series that differs only by a repeated tag: distinct until a stage
			// that de-duplicates tags makes them one series
			s = series[i-1]
			s.tags = append([]string(nil), s.tags...)
			if len(s.tags) == 0 {
				s.tags = []string{"dup"}
				series[i-1].tags = []string{"dup", "dup"}
			} else {
				s.tags = append(s.tags, s.tags[e.Draw(len(s.tags))])
			}
			e.Probe("twin-with-repeated-tag")
		}
		series = append(series, s)
	}
	nBatches := e.Range(1, 8*e.Depth())
	repeatingGauges := e.Chance(1, 3)
	batches := make([][]c07DP, nBatches)
	ts := int64(1000)
	id := 0
	for b := range batches {
		for i, n := 0, e.Range(1, 5); i < n; i++ {
			s := series[e.Draw(nSeries)]
			id++
			if !e.Chance(1, 4) {
				ts += int64(1 + e.Draw(3))
			} else {
				e.Probe("timestamp-tie")
			}
			d := c07DP{kind: s.kind, name: s.name, tags: s.tags, source: s.source, rate: 1, ts: ts}
			switch s.kind {
			case "counter":
				d.value = float64(e.Draw(7)) - 2 // includes 0 and negatives
				if d.value == 0 {
					e.Probe("zero-counter-newest")
				}
			case "timer":
				d.value = float64(id)
				d.rate = []float64{1, 0.5, 0.1, 0.25}[e.Draw(4)]
			case "gauge":
				d.value = float64(id)
				if repeatingGauges {
					d.value = float64(5 + 2*e.Draw(2)) // a gauge reported again with a value it had before
				}
			case "set":
				d.member = fmt.Sprintf("m%d", e.Draw(5))
			}
			batches[b] = append(batches[b], d)
		}
	}
	want := Model{}
	add := func(m Model, d c07DP, tags []string, source string) {
		m.AddRaw(KeyOf(d.kind, d.name, tags, source), d.kind, d.value, d.rate, d.member, d.ts)
	}
	for _, b := range batches {
		for _, d := range b {
			add(want, d, d.tags, d.source)
		}
	}
	// batches as the parser builds them: one MetricMap per batch via Receive
	build := func(b []c07DP) *gostatsd.MetricMap {
		mm := gostatsd.NewMetricMap(false)
		seenName := map[string]map[string]bool{}
		for _, d := range b {
			k := strings.Join(d.tags, ",") + "|" + d.source
			if seenName[d.kind+d.name] == nil {
				seenName[d.kind+d.name] = map[string]bool{}
			} else if !seenName[d.kind+d.name][k] && d.kind == "timer" && d.rate != 1 {
				e.Probe("sampled-timer-second-tagset")
			}
			seenName[d.kind+d.name][k] = true
			mm.Receive(d.metric())
		}
		return mm
	}
	order := make([]int, nBatches)
	for i := range order {
		order[i] = i
	}
	for i := nBatches - 1; i > 0; i-- {
		j := e.Choose("perm", i+1)
		order[i], order[j] = order[j], order[i]
	}
	e.Event("batches=%d series=%d order=%v", nBatches, nSeries, order)
	e.State("batches=%d series=%d expected-series=%d", nBatches, nSeries, len(want))

	switch e.Weighted("variant", []int{2, 3, 2, 2, 2, 3}) {
	case 0: // pairwise merges in a tape-chosen bracketing
		e.Probe("variant-mergemaps")
		var maps []*gostatsd.MetricMap
		for _, i := range order {
			maps = append(maps, build(batches[i]))
		}
		for len(maps) > 1 {
			i := e.Choose("into", len(maps))
			j := e.Choose("from", len(maps)-1)
			if j >= i {
				j++
			}
			if e.Bool() {
				maps[i].Merge(maps[j])
			} else {
				maps[i] = gostatsd.MergeMaps([]*gostatsd.MetricMap{maps[i], maps[j]})
			}
			maps = append(maps[:j], maps[j+1:]...)
		}
		obs, _ := Snapshot(maps[0])
		compareAggregate(e, "C07", "pairwise merges", obs, want, true)

	case 1, 2: // consolidator: slot assignment by parking dispatchers while they hold a slot
		useMetrics := false
		if e.Bool() {
			useMetrics = true
			e.Probe("variant-consolidator-receivemetrics")
		} else {
			e.Probe("variant-consolidator")
		}
		slots := e.Range(1, 4)
		sink := make(chan []*gostatsd.MetricMap, 1)
		mc := gostatsd.NewMetricConsolidator(slots, false, time.Hour, sink)
		yg := &yieldGate{gate: NewGate("yield"), anyObj: true, sites: map[string]bool{}}
		for _, s := range []string{"consolidator.receive.holding-slot", "consolidator.receive.before-return"} {
			if e.Chance(2, 3) {
				yg.sites[s] = true
			}
		}
		verifhook.SetYield(yg.fn)
		defer verifhook.SetYield(nil)
		defer yg.gate.Open(nil)
		var wg sync.WaitGroup
		defer wg.Wait()
		next := 0
		started := 0
		var fmu sync.Mutex
		finished := 0
		done := func() { fmu.Lock(); finished++; fmu.Unlock(); wg.Done() }
		for started < nBatches || yg.gate.Len() > 0 {
			e.Settle()
			parked := yg.gate.Parked()
			holding := 0
			for _, p := range parked {
				if strings.HasPrefix(p.Key, "consolidator.receive.") {
					holding++
				}
			}
			if holding >= 2 {
				e.Probe("two-holding-slots")
				e.Overlap = true
			}
			canStart := 0
			// a new dispatcher can only make progress if a slot is free; otherwise it just queues on the channel
			fmu.Lock()
			unfinished := started - finished
			fmu.Unlock()
			if started < nBatches && unfinished < slots+1 {
				canStart = 1
			}
			if canStart == 0 && len(parked) == 0 {
				break
			}
			if e.Weighted("c07-cons", []int{3 * canStart, 4 * len(parked)}) == 0 {
				b := batches[order[next]]
				next++
				started++
				wg.Add(1)
				if useMetrics {
					var ms []*gostatsd.Metric
					for _, d := range b {
						ms = append(ms, d.metric())
					}
					if len(ms) > 0 {
						yg.names.Store(ms[0], fmt.Sprintf("%02d", next-1))
					}
					go func() { defer done(); mc.ReceiveMetrics(ms) }()
				} else {
					mm := build(b)
					yg.names.Store(mm, fmt.Sprintf("%02d", next-1))
					go func() { defer done(); mc.ReceiveMetricMap(mm) }()
				}
				e.Event("start dispatch %d", next-1)
			} else {
				p := parked[e.Choose("release-yield", len(parked))]
				if strings.HasPrefix(p.Key, "consolidator.receive.holding-slot") {
					e.Probe("dispatcher-parked-holding-slot")
					e.Fault("dispatcher-preempted-holding-slot")
				}
				e.Event("release %s", p.Key)
				yg.gate.Release(p, nil)
			}
		}
		yg.gate.Open(nil)
		e.Settle()
		wg.Wait()
		obs, _ := Snapshot(gostatsd.MergeMaps(mc.Drain()))
		compareAggregate(e, "C07", fmt.Sprintf("consolidator with %d slots", slots), obs, want, true)

	case 3: // aggregator: ReceiveMap in the chosen order, state read through Process
		e.Probe("variant-aggregator")
		agg := statsd.NewMetricAggregator(nil, time.Hour, time.Hour, time.Hour, time.Hour, gostatsd.TimerSubtypes{}, 0)
		for _, i := range order {
			agg.ReceiveMap(build(batches[i]))
		}
		var obs map[SeriesKey]*Obs
		agg.Process(func(mm *gostatsd.MetricMap) { obs, _ = Snapshot(mm) })
		compareAggregate(e, "C07", "aggregator", obs, want, true)

	case 4: // tag stage: de-duplication / a drop-tags filter makes series coincide inside one batch
		e.Probe("variant-tagstage")
		down := &RecHandler{Env: e}
		var filters []statsd.Filter
		dropT := e.Bool()
		if dropT {
			filters = append(filters, statsd.Filter{DropTags: gostatsd.StringMatchList{gostatsd.NewStringMatch("t:*")}})
		}
		static := gostatsd.Tags{}
		if e.Bool() {
			static = gostatsd.Tags{"zone:a"}
		}
		th := statsd.NewTagHandler(down, static, filters)
		// expectation: identity after the stage = unique(tags minus dropped) + static tags not present
		want2 := Model{}
		for _, b := range batches {
			for _, d := range b {
				seen := map[string]bool{}
				var t2 []string
				for _, t := range d.tags {
					if dropT && strings.HasPrefix(t, "t:") {
						continue
					}
					if !seen[t] {
						seen[t] = true
						t2 = append(t2, t)
					}
				}
				for _, t := range static {
					if !seen[t] {
						seen[t] = true
						t2 = append(t2, t)
					}
				}
				add(want2, d, t2, d.source)
			}
		}
		if len(want2) < len(want) {
			e.Probe("tag-collision")
			e.Overlap = true
		}
		total := map[SeriesKey]*Obs{}
		// all batches merged into one map first (so that colliding series meet inside the stage), or one by one
		if e.Bool() {
			var maps []*gostatsd.MetricMap
			for _, i := range order {
				maps = append(maps, build(batches[i]))
			}
			th.DispatchMetricMap(context.Background(), gostatsd.MergeMaps(maps))
		} else {
			for _, i := range order {
				th.DispatchMetricMap(context.Background(), build(batches[i]))
			}
		}
		for i := 0; i < down.NMaps(); i++ {
			accumulate(total, down.MapAt(i).Obs)
		}
		compareAggregate(e, "C07", "tag stage", total, want2, false)

	case 5: // cloud stage: batches of a pending source are merged while parked, then re-keyed
		e.Probe("variant-cloudqueue")
		cache := &stubCache{table: map[gostatsd.Source]peekEntry{}, sink: make(chan gostatsd.Source), info: make(chan gostatsd.InstanceInfo)}
		down := &RecHandler{Env: e}
		ch := statsd.NewCloudHandler(cache, down)
		ctx, cancel := context.WithCancel(context.Background())
		var wg sync.WaitGroup
		wg.Add(1)
		go func() { defer wg.Done(); ch.Run(ctx) }()
		defer wg.Wait()
		defer cancel()
		inst := &gostatsd.Instance{ID: "i-x", Tags: gostatsd.Tags{"inst:x"}}
		want2 := Model{}
		outstanding := map[gostatsd.Source]bool{}
		answer := map[gostatsd.Source]*gostatsd.Instance{}
		parked := map[gostatsd.Source][]c07DP{}
		finalise := func(d c07DP, in *gostatsd.Instance) {
			if in != nil {
				add(want2, d, append(append([]string(nil), d.tags...), in.Tags...), string(in.ID))
			} else {
				add(want2, d, d.tags, d.source)
			}
		}
		completeOne := func() bool {
			var outs []string
			for s := range outstanding {
				outs = append(outs, string(s))
			}
			if len(outs) == 0 {
				return false
			}
			sort.Strings(outs)
			s := gostatsd.Source(outs[e.Choose("complete", len(outs))])
			var in *gostatsd.Instance
			if e.Bool() {
				in = inst
			}
			for _, d := range parked[s] {
				finalise(d, in)
			}
			delete(parked, s)
			delete(outstanding, s)
			answer[s] = in
			e.Event("lookup %s -> %v", s, in != nil)
			cache.info <- gostatsd.InstanceInfo{IP: s, Instance: in}
			e.Settle()
			return true
		}
		acceptAll := func() {
			for {
				e.Settle()
				select {
				case s := <-cache.sink:
					outstanding[s] = true
				default:
					return
				}
			}
		}
		// some senders are already known to the cache, possibly two addresses of one instance: their
		// series are re-keyed inside the batch and may coincide there
		hits := map[string]*gostatsd.Instance{}
		switch e.Draw(3) {
		case 1:
			hits["10.7.0.1"] = inst
		case 2:
			hits["10.7.0.1"], hits["10.7.0.2"] = inst, inst
			e.Probe("two-sources-one-instance")
		}
		for _, src := range []string{"10.7.0.1", "10.7.0.2"} {
			if in, ok := hits[src]; ok {
				cache.set(gostatsd.Source(src), peekEntry{hit: true, inst: in})
			}
		}
		for n, i := range order {
			b := batches[i]
			for _, d := range b {
				if d.source == "" {
					finalise(d, nil)
				} else if in, ok := hits[d.source]; ok {
					finalise(d, in)
				} else {
					parked[gostatsd.Source(d.source)] = append(parked[gostatsd.Source(d.source)], d)
				}
			}
			ch.DispatchMetricMap(ctx, build(b))
			acceptAll()
			if e.Chance(1, 3) && n < len(order)-1 {
				if completeOne() {
					e.Probe("lookup-between-batches")
					e.Overlap = true
				}
			}
		}
		acceptAll()
		for completeOne() {
		}
		acceptAll()
		for completeOne() {
		}
		e.Settle()
		total := map[SeriesKey]*Obs{}
		for i := 0; i < down.NMaps(); i++ {
			accumulate(total, down.MapAt(i).Obs)
		}
		if len(parked) > 0 {
			e.Failf("C07/cloud-queue-never-released", "batches parked for these sources were never offered for lookup / released: %v", parked)
		}
		compareAggregate(e, "C07", "cloud stage queue", total, want2, false)
	}
}
