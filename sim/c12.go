package verifsim

// C12 — the instance cache answers every lookup once and never forgets good data on error.
// World W3: the real CachedCloudProvider (Run, lookup dispatcher, rate limiter, RunMetrics) on the
// bubble clock; scripted CloudProvider whose Instance() is a gate; harness clients and consumer.

import (
	"context"
	"errors"
	"fmt"
	"sort"
	"strings"
	"sync"
	"time"

	"github.com/sirupsen/logrus"
	"golang.org/x/time/rate"

	"github.com/atlassian/gostatsd"
	"github.com/atlassian/gostatsd/pkg/cachedinstances/cloudprovider"
)

func init() { register("C12", func() Property { return c12{} }) }

type c12 struct{}

func (c12) ID() string { return "C12" }

type provCall struct {
	n   int
	ips []gostatsd.Source
	at  time.Time
}

type provOutcome struct {
	m   map[gostatsd.Source]*gostatsd.Instance
	err error
}

type scriptedProvider struct {
	gate  *Gate
	batch int
	mu    sync.Mutex
	calls []*provCall
}

func (p *scriptedProvider) Name() string           { return "sim" }
func (p *scriptedProvider) MaxInstancesBatch() int { return p.batch }
func (p *scriptedProvider) EstimatedTags() int     { return 1 }
func (p *scriptedProvider) Instance(ctx context.Context, ips ...gostatsd.Source) (map[gostatsd.Source]*gostatsd.Instance, error) {
	p.mu.Lock()
	c := &provCall{n: len(p.calls), ips: append([]gostatsd.Source(nil), ips...), at: time.Now()}
	p.calls = append(p.calls, c)
	p.mu.Unlock()
	strs := make([]string, len(ips))
	for i, s := range ips {
		strs[i] = string(s)
	}
	o := p.gate.Arrive(fmt.Sprintf("call%03d:%s", c.n, strings.Join(strs, ",")), c)
	if o == nil {
		return nil, errors.New("provider closed")
	}
	out := o.(provOutcome)
	return out.m, out.err
}
func (p *scriptedProvider) nCalls() int { p.mu.Lock(); defer p.mu.Unlock(); return len(p.calls) }

var c12OutcomeNames = []string{"full", "partial", "empty", "error", "error+partial"}

type c12Entry struct {
	inst       *gostatsd.Instance
	lastAccess time.Time
	lastAnswer time.Time
	lastFailed bool // the most recent answer carried no instance
}

func (c12) Run(e *Env) {
	e.ProbeDecl("outcome-full", "outcome-partial", "outcome-empty", "outcome-error", "outcome-error+partial", "failed-refresh-keeps-instance", "evicted-idle", "requeried-after-ttl",
		"negative-entry", "negative-to-positive", "batch-of-several", "duplicate-source-in-flight", "peek-hit", "peek-miss", "submission-parked-behind-slow-call", "emit", "entry-kept-in-use-across-an-advance")
	opts := gostatsd.CacheOptions{
		CacheRefreshPeriod:        []time.Duration{50 * time.Millisecond, 100 * time.Millisecond, time.Second}[e.Draw(3)],
		CacheTTL:                  []time.Duration{200 * time.Millisecond, time.Second, 5 * time.Second}[e.Draw(3)],
		CacheNegativeTTL:          []time.Duration{50 * time.Millisecond, 200 * time.Millisecond, time.Second}[e.Draw(3)],
		CacheEvictAfterIdlePeriod: []time.Duration{300 * time.Millisecond, 2 * time.Second, 10 * time.Second}[e.Draw(3)],
	}
	prov := &scriptedProvider{gate: NewGate("provider"), batch: e.Range(1, 4)}
	lim := rate.NewLimiter(rate.Inf, 1)
	throttled := false
	if e.Chance(1, 4) {
		lim = rate.NewLimiter(rate.Limit(200), 1) // 5 ms apart: well above the worst-case refresh demand (4 sources x 20 ticks/s), so the dispatcher is never permanently saturated
		if opts.CacheRefreshPeriod == time.Second && e.Bool() {
			throttled = true
			lim = rate.NewLimiter(rate.Limit(20), 1) // 50 ms apart: calls do wait for their token (refresh demand is 4 per second at most)
			e.Probe("provider-calls-throttled")
		}
	}
	ccp := cloudprovider.NewCachedCloudProvider(logrus.StandardLogger(), lim, prov, opts)
	st := NewRecStatser()
	ctx, cancel := context.WithCancel(context.Background())
	var wg sync.WaitGroup
	wg.Add(2)
	go func() { defer wg.Done(); ccp.Run(ctx) }()
	go func() { defer wg.Done(); ccp.RunMetrics(ctx, st) }()
	defer wg.Wait()
	defer prov.gate.Open(nil)
	defer cancel()
	e.Settle()
	t0 := time.Now()
	// Every instant at which the driver acts is congruent to 137us modulo 1ms, so that timers armed
	// by gostatsd in reaction (batch window, rate limiter) never fire at the same instant as a
	// refresh tick (multiples of the refresh period): simultaneous timers on different goroutines
	// are ordered by the runtime, not by the tape.
	sleep := func(d time.Duration) {
		target := time.Since(t0) + d
		rem := target % time.Millisecond
		adj := 137*time.Microsecond - rem
		if adj < 0 {
			adj += time.Millisecond
		}
		time.Sleep(d + adj)
	}
	sleep(0)
	e.Event("cfg refresh=%v ttl=%v negttl=%v idle=%v batch=%d limited=%v", opts.CacheRefreshPeriod, opts.CacheTTL, opts.CacheNegativeTTL, opts.CacheEvictAfterIdlePeriod, prov.batch, lim.Limit() != rate.Inf)

	// systematic enumeration of short outcome scripts over the first runs of a batch
	var script []int
	if idx := e.RunIndex; idx < 5+25+125+625 {
		l, base := 1, uint64(0)
		for n := uint64(5); idx >= base+n; n *= 5 {
			base += n
			l++
		}
		k := idx - base
		for i := 0; i < l; i++ {
			script = append(script, int(k%5))
			k /= 5
		}
		e.Note["enumerated_script"] = script
	}

	srcs := []gostatsd.Source{"10.5.0.1", "10.5.0.2", "10.5.0.3", "10.5.0.4"}[:e.Range(1, 4)]
	model := map[gostatsd.Source]*c12Entry{}
	mustQuery := map[gostatsd.Source]time.Time{}
	var acceptedMu sync.Mutex
	accepted := map[gostatsd.Source]int{}
	pendingSub := 0
	answered := map[string]int{} // "source|instance-id" multiset received on InfoSource
	expected := map[string]int{} // the same, from returned provider calls
	callsSeen := 0
	released := 0
	instSeq := 0
	lastTick := t0

	instID := func(i *gostatsd.Instance) string {
		if i == nil {
			return "nil"
		}
		return string(i.ID)
	}

	// model of the refresh ticks that happened up to now
	ticks := func() {
		now := time.Now()
		for t := lastTick.Add(opts.CacheRefreshPeriod); !t.After(now); t = t.Add(opts.CacheRefreshPeriod) {
			lastTick = t
			pastTTL := 0
			for _, s := range srcs {
				en := model[s]
				if en == nil {
					continue
				}
				if t.Sub(en.lastAccess) > opts.CacheEvictAfterIdlePeriod {
					delete(model, s)
					delete(mustQuery, s)
					e.Probe("evicted-idle")
					e.Event("model: %s evicted at +%v", s, t.Sub(t0))
					continue
				}
				// The statement does not say which TTL governs an entry whose last refresh failed
				// while it keeps serving an older instance; the obligation is therefore only raised
				// once the entry is past the longer of the two configured TTLs for such entries.
				ttl := opts.CacheTTL
				if en.inst == nil {
					ttl = opts.CacheNegativeTTL
				} else if en.lastFailed && opts.CacheNegativeTTL > ttl {
					ttl = opts.CacheNegativeTTL
				}
				if t.Sub(en.lastAnswer) > ttl {
					if _, ok := mustQuery[s]; !ok {
						mustQuery[s] = t
					}
				}
				exp := opts.CacheTTL
				if opts.CacheNegativeTTL < exp {
					exp = opts.CacheNegativeTTL
				}
				if t.Sub(en.lastAnswer) > exp {
					pastTTL++
				}
			}
			if pastTTL >= 2 {
				// the cache walks a Go map to collect the sources to refresh: their order, and
				// with it their grouping into provider calls, is the runtime's choice
				e.Unstable("refresh-order-of-several-sources")
			}
		}
	}
	// provider calls that arrived: they satisfy pending re-query obligations
	seeCalls := func() {
		for ; callsSeen < prov.nCalls(); callsSeen++ {
			prov.mu.Lock()
			c := prov.calls[callsSeen]
			prov.mu.Unlock()
			if len(c.ips) > prov.batch {
				e.Failf("C12/batch-limit-exceeded", "provider called with %d sources, limit %d", len(c.ips), prov.batch)
			}
			if len(c.ips) > 1 {
				e.Probe("batch-of-several")
			}
			seen := map[gostatsd.Source]bool{}
			for _, s := range c.ips {
				if seen[s] {
					e.Probe("duplicate-source-in-flight")
				}
				seen[s] = true
				if t, ok := mustQuery[s]; ok && !c.at.Before(t) {
					delete(mustQuery, s)
					e.Probe("requeried-after-ttl")
				}
			}
			sorted := append([]gostatsd.Source(nil), c.ips...)
			sort.Slice(sorted, func(i, j int) bool { return sorted[i] < sorted[j] })
			e.Event("provider call %d %v", c.n, sorted)
		}
	}
	drain := func() int {
		n := 0
		for {
			e.Settle()
			select {
			case info := <-ccp.InfoSource():
				answered[string(info.IP)+"|"+instID(info.Instance)]++
				n++
			default:
				return n
			}
		}
	}
	checkAnswers := func(where string) {
		keys := map[string]bool{}
		for k := range answered {
			keys[k] = true
		}
		for k := range expected {
			keys[k] = true
		}
		ks := make([]string, 0, len(keys))
		for k := range keys {
			ks = append(ks, k)
		}
		sort.Strings(ks)
		for _, k := range ks {
			if answered[k] != expected[k] {
				cls := "C12/answer-missing"
				if answered[k] > expected[k] {
					cls = "C12/answer-extra"
				}
				e.Failf(cls, "%s: answer %s received %d times on InfoSource, provider calls that returned account for %d", where, k, answered[k], expected[k])
			}
		}
	}
	peek := func(s gostatsd.Source, where string) {
		inst, hit := ccp.Peek(s)
		en := model[s]
		switch {
		case en == nil && hit:
			e.Failf("C12/peek-hit-after-eviction-or-before-answer", "%s: Peek(%s) hits (%s) but the entry was never answered or has been evicted as idle", where, s, instID(inst))
		case en != nil && !hit:
			e.Failf("C12/peek-miss-for-live-entry", "%s: Peek(%s) misses although the source was answered at +%v and last used at +%v (idle period %v)", where, s, en.lastAnswer.Sub(t0), en.lastAccess.Sub(t0), opts.CacheEvictAfterIdlePeriod)
		case en != nil && en.inst != inst:
			cls := "C12/peek-wrong-instance"
			if en.inst != nil && inst == nil {
				cls = "C12/good-instance-forgotten"
			}
			e.Failf(cls, "%s: Peek(%s) = %s, expected %s (the newest successful result)", where, s, instID(inst), instID(en.inst))
		}
		if en != nil {
			en.lastAccess = time.Now()
			e.Probe("peek-hit")
		} else {
			e.Probe("peek-miss")
		}
	}

	release := func(p *Parked, kind int) {
		c := p.Arg.(*provCall)
		out := provOutcome{}
		switch kind {
		case 0, 1, 4:
			out.m = map[gostatsd.Source]*gostatsd.Instance{}
			for _, s := range c.ips {
				if kind != 0 && (int(s[len(s)-1])+c.n)%2 == 0 { // partial: chosen by content, not by position
					continue
				}
				instSeq++
				out.m[s] = &gostatsd.Instance{ID: gostatsd.Source(fmt.Sprintf("i-%s-%d", s, instSeq)), Tags: gostatsd.Tags{"t:1"}}
			}
		case 2:
			out.m = map[gostatsd.Source]*gostatsd.Instance{}
		case 3:
			out.m = nil
		}
		if kind >= 3 {
			// what a provider's own request can fail with, while the cache's context is alive
			out.err = []error{errors.New("simulated provider error"), fmt.Errorf("describe instances: %w", context.DeadlineExceeded), fmt.Errorf("describe instances: %w", context.Canceled)}[e.Draw(3)]
			e.Fault("provider-error")
		}
		if kind == 1 || kind == 2 {
			e.Fault("provider-incomplete")
		}
		e.Probe("outcome-" + c12OutcomeNames[kind])
		now := time.Now()
		for _, s := range c.ips {
			inst := out.m[s]
			expected[string(s)+"|"+instID(inst)]++
			en := model[s]
			if en == nil {
				model[s] = &c12Entry{inst: inst, lastAccess: now, lastAnswer: now}
				if inst == nil {
					e.Probe("negative-entry")
				}
			} else {
				if inst == nil && en.inst != nil {
					e.Probe("failed-refresh-keeps-instance")
				}
				if inst != nil {
					if en.inst == nil {
						e.Probe("negative-to-positive")
					}
					en.inst = inst
				}
				en.lastAnswer = now
				en.lastFailed = inst == nil
			}
		}
		released++
		e.Event("release call %d with %s", c.n, c12OutcomeNames[kind])
		prov.gate.Release(p, out)
	}

	nSteps := e.Range(4, 45*e.Depth())
	for step := 0; step < nSteps; step++ {
		e.Settle()
		ticks()
		seeCalls()
		e.Check()
		parked := prov.gate.Parked()
		e.State("model=%d parked=%d pendingSub=%d", len(model), len(parked), pendingSub)
		canSubmit := 0
		if pendingSub < 3 {
			canSubmit = 1
		}
		switch e.Weighted("c12", []int{5 * canSubmit, 2, 3, 5 * len(parked), 4, 1}) {
		case 0:
			s := srcs[e.Draw(len(srcs))]
			pendingSub++
			if len(parked) > 0 {
				e.Probe("submission-parked-behind-slow-call")
				e.Overlap = true
			}
			wg.Add(1)
			go func() {
				defer wg.Done()
				select {
				case ccp.IpSink() <- s:
					acceptedMu.Lock()
					accepted[s]++
					acceptedMu.Unlock()
				case <-ctx.Done():
				}
			}()
			e.Event("submit %s", s)
		case 1:
			n := drain()
			e.Event("consumer read %d", n)
			if len(prov.gate.Parked()) == 0 {
				// nothing is in flight inside a provider call: every returned call must be answered by now
				checkAnswers("after draining InfoSource")
			}
		case 2:
			s := srcs[e.Draw(len(srcs))]
			e.Event("peek %s", s)
			peek(s, fmt.Sprintf("step %d at +%v", step, time.Since(t0)))
		case 3:
			p := parked[e.Choose("which-call", len(parked))]
			kind := e.Draw(5)
			if released < len(script) {
				kind = script[released]
			}
			release(p, kind)
		case 4:
			var d time.Duration
			advKind := e.Draw(4)
			if throttled && e.Bool() {
				advKind = 0 // short steps: submissions land while a batch waits for its token
			}
			switch advKind {
			case 0:
				d = time.Duration(1+e.Draw(20)) * time.Millisecond
				if throttled {
					d = time.Duration(1+e.Draw(45)) * time.Millisecond
				}
			case 1:
				d = lastTick.Add(opts.CacheRefreshPeriod).Sub(time.Now())
			case 2:
				d = opts.CacheTTL/2 + time.Duration(e.Draw(3))*opts.CacheTTL/2
			case 3:
				d = opts.CacheEvictAfterIdlePeriod + time.Millisecond
			}
			if d <= 0 {
				d = time.Millisecond
			}
			if d > 12*time.Second {
				d = 12 * time.Second
			}
			// sometimes a source stays in use all the while (peeked more often than the idle period), so
			// that its entry outlives its TTL instead of being evicted
			keep := e.Chance(1, 3)
			ks := srcs[e.Draw(len(srcs))]
			if keep {
				e.Probe("entry-kept-in-use-across-an-advance")
			}
			e.Event("advance %v (keeping %s in use: %v)", d, ks, keep)
			// Long advances are taken in slices of at most ten refresh periods; a provider call that
			// arrives meanwhile is answered between slices. (A call held across hundreds of refresh
			// ticks only piles up duplicate re-queries that starve older ones for a long time -
			// legal, but it would make every bounded-liveness judgement below meaningless.)
			for d > 0 {
				sl := d
				if sl > 10*opts.CacheRefreshPeriod {
					sl = 10 * opts.CacheRefreshPeriod
				}
				if keep && sl > opts.CacheEvictAfterIdlePeriod/2 {
					sl = opts.CacheEvictAfterIdlePeriod / 2
				}
				d -= sl
				sleep(sl)
				if keep {
					e.Settle()
					ticks()
					seeCalls()
					peek(ks, fmt.Sprintf("keep-alive during the advance of step %d at +%v", step, time.Since(t0)))
				}
				if d > 0 {
					e.Settle()
					ticks()
					seeCalls()
					for _, p := range prov.gate.Parked() {
						kind := e.Draw(5)
						if released < len(script) {
							kind = script[released]
						}
						release(p, kind)
					}
				}
			}
		case 5:
			st.NotifyFlush(ctx, time.Second)
			e.Settle()
			ticks()
			pos, neg := 0, 0
			for _, en := range model {
				if en.inst != nil {
					pos++
				} else {
					neg++
				}
			}
			if g, ok := st.G("cloudprovider.cache_positive{}"); !ok || g != float64(pos) {
				e.Failf("C12/gauge-cache-positive", "cloudprovider.cache_positive = %v (present=%v), the cache holds %d resolved entries", g, ok, pos)
			}
			if g, ok := st.G("cloudprovider.cache_negative{}"); !ok || g != float64(neg) {
				e.Failf("C12/gauge-cache-negative", "cloudprovider.cache_negative = %v (present=%v), the cache holds %d unresolved entries", g, ok, neg)
			}
			e.Probe("emit")
			e.Event("emit ok %d/%d", pos, neg)
		}
	}

	// settle: no more submissions or faults; every call answers fully; until all submissions are
	// accepted, nothing is parked, nothing is pending on InfoSource and every re-query was issued.
	allAcceptedAt, lastCallRound := -1, 0
	for i := 0; ; i++ {
		if i > 20000 {
			e.Failf("C12/provider-calls-never-stop", "with every provider call answered in full at once, calls are still being issued after %d settle rounds of 15ms", i)
		}
		e.Settle()
		ticks()
		seeCalls()
		for _, p := range prov.gate.Parked() {
			release(p, 0)
			lastCallRound = i
		}
		drain()
		ticks()
		seeCalls()
		acceptedMu.Lock()
		acc := 0
		for _, n := range accepted {
			acc += n
		}
		acceptedMu.Unlock()
		if acc == pendingSub && allAcceptedAt < 0 {
			allAcceptedAt = i
		}
		// after the last submission was accepted, give the dispatcher a generous simulated second
		// (batching window, rate limiter, backlog of duplicate re-queries)
		// ... and as long as provider calls keep coming, the backlog is still draining (every refresh
		// tick during a slow call queues the expired sources once more, one call each at batch limit 1)
		if allAcceptedAt >= 0 && i-allAcceptedAt >= 70 && i-lastCallRound >= 70 {
			break
		}
		if i > 600 && allAcceptedAt < 0 {
			e.Failf("C12/submission-never-accepted", "%d of %d submitted sources were not accepted within %d settle rounds of 15ms with every provider call answered at once", pendingSub-acc, pendingSub, i)
		}
		sleep(15 * time.Millisecond)
	}
	e.Settle()
	for _, p := range prov.gate.Parked() {
		release(p, 0)
	}
	drain()
	ticks()
	seeCalls()
	for _, s := range srcs {
		if t, ok := mustQuery[s]; ok && time.Since(t) > 300*time.Millisecond {
			e.Failf("C12/not-requeried-after-ttl", "entry %s was past its TTL at the refresh tick at +%v and still cached, but has not been queried again %v later", s, t.Sub(t0), time.Since(t))
		}
	}
	checkAnswers("end of run")
	// (1) every submitted source was queried
	count := map[gostatsd.Source]int{}
	prov.mu.Lock()
	for _, c := range prov.calls {
		for _, s := range c.ips {
			count[s]++
		}
	}
	prov.mu.Unlock()
	for _, s := range srcs {
		if count[s] < accepted[s] {
			e.Failf("C12/submission-not-queried", "source %s was submitted %d times but appears in provider calls only %d times", s, accepted[s], count[s])
		}
	}
	for _, s := range srcs {
		peek(s, "end of run")
	}
	e.Note["provider_calls"] = prov.nCalls()
}
