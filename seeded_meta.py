#!/usr/bin/env python3
"""usage: seeded_meta.py <seeded-id> <property> <caught: yes|no|n/a> <check-result-text> <needs-text>"""
import json, sys, os
sid, prop, caught, result, needs = sys.argv[1:6]
d = os.path.join('/verif/seeded', sid)
meta = {"id": sid, "breaks_property": prop, "needs_to_manifest": needs,
        "origin": "written by an independent sub-agent given only the property text and a scratch worktree",
        "confirmed": "applied in a scratch worktree: existing suite passes (apart from the 3 cloudwatch tests that fail on the pinned tree), the demonstration fails with the change and passes without it (see confirm.log)",
        "what_i_ran": "confirm_mutant.sh (suite + demo with/without change); mutant_run.sh <patch> %s (git apply to /repo, ./check %s quick, git checkout)" % (prop, prop),
        "caught_by_check": caught, "check_result": result}
json.dump(meta, open(os.path.join(d, 'meta.json'), 'w'), indent=1)
print("wrote", d)
