#!/usr/bin/env python3
# usage: verify_seeded.py [--budget S] [--par N] [--workers W] [ids...]
# Re-runs every seeded change (or the given ids) through its property's quick check in scratch worktrees
# (short shrink budget) and prints one line per change: id, exit code (1 = caught), first violation classes.
import argparse, os, re, subprocess, sys
from concurrent.futures import ThreadPoolExecutor
ap = argparse.ArgumentParser()
ap.add_argument("--budget", default="25"); ap.add_argument("--par", type=int, default=3); ap.add_argument("--workers", default="5")
ap.add_argument("ids", nargs="*")
a = ap.parse_args()
ids = a.ids or sorted(os.listdir("/verif/seeded"))
def one(i):
    d = "/verif/seeded/" + i; prop = i.split("-")[0]
    p = d + "/patch_rebased.diff" if os.path.exists(d + "/patch_rebased.diff") else d + "/patch.diff"
    env = dict(os.environ, VERIF_SHRINK_S="4", VERIF_WORKERS=a.workers)
    out = subprocess.run(["/verif/mutant_wt.sh", p, prop, a.budget], env=env, stdout=subprocess.PIPE, stderr=subprocess.STDOUT, text=True).stdout
    rc = re.findall(r"^mutant_wt exit=(\d+)", out, re.M)
    cls = re.findall(r"^violation class: (.*)", out, re.M)[:3]
    line = "%s rc=%s %s" % (i, rc[0] if rc else "?", " ".join(cls))
    print(line, flush=True)
    return line
with ThreadPoolExecutor(a.par) as ex:
    list(ex.map(one, ids))
