#!/usr/bin/env python3
# usage: verify_seeded.py [--budget S] [--par N] [--workers W] [--update] [ids...]
# Re-runs every seeded change (or the given ids) through the quick check(s) of the properties named in its
# meta.json "checks" (default: the property of its id) in scratch worktrees, with a short shrink budget.
# Prints one line per change and writes seeded/RESULTS.json; --update also rewrites caught_by_check /
# check_result in the meta.json files.
import argparse, json, os, re, subprocess, sys
from concurrent.futures import ThreadPoolExecutor
ap = argparse.ArgumentParser()
ap.add_argument("--budget", default="25"); ap.add_argument("--par", type=int, default=3); ap.add_argument("--workers", default="5")
ap.add_argument("--update", action="store_true"); ap.add_argument("ids", nargs="*")
a = ap.parse_args()
ids = a.ids or sorted(d for d in os.listdir("/verif/seeded") if os.path.exists("/verif/seeded/" + d + "/meta.json"))
ids = [i for i in ids if not json.load(open("/verif/seeded/" + i + "/meta.json")).get("obsolete")]  # changes a later fix made behaviour-preserving
def one(i):
    d = "/verif/seeded/" + i
    meta = json.load(open(d + "/meta.json"))
    p = d + "/patch_rebased.diff" if os.path.exists(d + "/patch_rebased.diff") else d + "/patch.diff"
    env = dict(os.environ, VERIF_SHRINK_S="4", VERIF_WORKERS=a.workers)
    res = {"id": i, "caught": False, "by": []}
    for prop in meta.get("checks") or [i.split("-")[0]]:
        out = subprocess.run(["/verif/mutant_wt.sh", p, prop, a.budget], env=env, stdout=subprocess.PIPE, stderr=subprocess.STDOUT, text=True).stdout
        rc = re.findall(r"^mutant_wt exit=(\d+)", out, re.M)
        cls = re.findall(r"^violation class: (.*)", out, re.M)[:3]
        runs = re.findall(r"VIOLATION property=\S+ replay=\S+-(\d+)\.json", out)[:3]
        res["by"].append({"check": prop, "rc": rc[0] if rc else "?", "classes": cls, "runs": runs})
        if rc and rc[0] == "1":
            res["caught"] = True
            break
    print(i, "CAUGHT" if res["caught"] else "missed", json.dumps(res["by"]), flush=True)
    return res
with ThreadPoolExecutor(a.par) as ex:
    results = list(ex.map(one, ids))
old = {}
if os.path.exists("/verif/seeded/RESULTS.json"):
    old = {r["id"]: r for r in json.load(open("/verif/seeded/RESULTS.json"))}
for r in results:
    old[r["id"]] = r
json.dump([old[k] for k in sorted(old)], open("/verif/seeded/RESULTS.json", "w"), indent=1)
if a.update:
    for r in results:
        mp = "/verif/seeded/%s/meta.json" % r["id"]
        m = json.load(open(mp))
        if r["caught"]:
            b = r["by"][-1]
            m["caught_by_check"] = "yes"
            m["check_result"] = "%s: %s at run %s (quick seed, %s workers)" % (b["check"], ", ".join(b["classes"]), "/".join(b["runs"]), a.workers)
        elif m.get("caught_by_check") in ("?", None):
            m["caught_by_check"] = "no"; m["check_result"] = "not reported by " + ", ".join(x["check"] for x in r["by"])
        json.dump(m, open(mp, "w"), indent=1)
print(sum(r["caught"] for r in results), "of", len(results), "caught")
