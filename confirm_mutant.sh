#!/bin/sh
# usage: confirm_mutant.sh <worktree> <outdir/k> <pkgdir-for-demo> <seeded-id> <property>
# Confirms a sub-agent's change in a scratch worktree: suite passes with it, demo fails with it, demo passes without it.
# On success copies patch.diff + demo into /verif/seeded/<seeded-id>/ and writes confirm.log there.
WT="$1"; SRC="$2"; PKG="$3"; SID="$4"; PROP="$5"
export GOFLAGS=-mod=mod GOPROXY=off
cd "$WT" || exit 2
git checkout -q -- . ; git clean -fdq
DEMOS=$(ls "$SRC"/*_test.go 2>/dev/null)
[ -z "$DEMOS" ] && { echo "no demo test in $SRC"; exit 2; }
LOG=$(mktemp)
git apply "$SRC/patch.diff" || { echo "patch does not apply"; exit 2; }
echo "== suite with change" >>$LOG
go test -vet=off -count=1 ./... 2>&1 | grep -v "no test files" | grep -E "^(FAIL|---|ok|panic)" | grep -v "^ok" >>$LOG
SUITE_BAD=$(grep -E "^FAIL[[:space:]]+github" $LOG | grep -v cloudwatch | wc -l)
cp $DEMOS "$PKG"/
echo "== demo with change" >>$LOG
NAMES=$(grep -ho "^func Test[A-Za-z0-9_]*" $DEMOS | sed 's/func //' | paste -sd'|')
go test $CONFIRM_TAGS -vet=off -count=1 -run "^($NAMES)\$" "./$PKG/" >>$LOG 2>&1; RC_MUT=$?
git checkout -q -- . ; for d in $DEMOS; do cp "$d" "$PKG"/; done
echo "== demo without change" >>$LOG
go test $CONFIRM_TAGS -vet=off -count=1 -run "^($NAMES)\$" "./$PKG/" >>$LOG 2>&1; RC_CLEAN=$?
git checkout -q -- . ; git clean -fdq
echo "suite_bad=$SUITE_BAD demo_with_change_rc=$RC_MUT demo_clean_rc=$RC_CLEAN"
if [ "$SUITE_BAD" = 0 ] && [ "$RC_MUT" != 0 ] && [ "$RC_CLEAN" = 0 ]; then
  D=/verif/seeded/$SID; mkdir -p $D
  cp "$SRC/patch.diff" $D/; cp $DEMOS $D/; [ -f "$SRC/README.md" ] && cp "$SRC/README.md" $D/AGENT_README.md
  tail -c 6000 $LOG > $D/confirm.log
  echo "CONFIRMED -> $D"
else
  echo "NOT CONFIRMED"; tail -40 $LOG
fi
rm -f $LOG
